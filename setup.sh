#!/bin/bash
# MANIFEST.setup_cmd: builds every harness flavour offline from files on disk.
set -e
cd "$(dirname "$0")"
exec ./check --setup
