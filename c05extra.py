"""C05 thorough tier extras: coverage-guided fuzzing (libFuzzer + AddressSanitizer) and Miri."""
import hashlib
import json
import os
import re
import shutil
import subprocess
import time


def seed_corpus(path, seed):
    os.makedirs(path, exist_ok=True)
    for i in range(32):
        out = b""
        j = 0
        while len(out) < 3000:
            out += hashlib.sha256(b"corpus-%d-%d-%d" % (seed, i, j)).digest()
            j += 1
        with open(os.path.join(path, "seed-%02d" % i), "wb") as f:
            f.write(out[:3000])


def run(d, seed, t0):
    violations, inconclusive, cov = [], [], {}
    fuzz_dir = os.path.join(d.HARNESS, "fuzz")
    tdir = os.path.join(d.TARGET, "fuzz")
    wdir = os.path.join(d.WORK, "fuzz")
    shutil.rmtree(wdir, ignore_errors=True)
    os.makedirs(os.path.join(wdir, "artifacts"), exist_ok=True)
    os.makedirs(os.path.join(wdir, "fails"), exist_ok=True)
    corpus = os.path.join(wdir, "corpus")
    seed_corpus(corpus, seed)
    kept = os.path.join(d.ROOT, "regress", "C05", "fuzz-inputs")
    if os.path.isdir(kept):
        for f in os.listdir(kept):
            shutil.copy(os.path.join(kept, f), os.path.join(corpus, "kept-" + f))
    env = dict(d.ENV)
    env["GV_FUZZ_FAILDIR"] = os.path.join(wdir, "fails")
    env["ASAN_OPTIONS"] = "detect_leaks=0:allocator_may_return_null=1"
    b = subprocess.run(["cargo", "+nightly", "fuzz", "build", "--fuzz-dir", fuzz_dir, "--target-dir", tdir, "c05"], cwd=d.HARNESS, env=env, stdout=subprocess.PIPE, stderr=subprocess.STDOUT, text=True)
    if b.returncode != 0:
        d.log(b.stdout[-3000:])
        inconclusive.append("the fuzz target does not build")
        return violations, inconclusive, cov
    secs = int(os.environ.get("VERIF_FUZZ_SECONDS", "300"))
    jobs = d.NPROC
    cmd = ["cargo", "+nightly", "fuzz", "run", "--fuzz-dir", fuzz_dir, "--target-dir", tdir, "c05", corpus, "--",
           "-max_total_time=%d" % secs, "-jobs=%d" % jobs, "-workers=%d" % jobs, "-len_control=0", "-max_len=4096", "-seed=%d" % (seed & 0x7fffffff or 1),
           "-timeout=120", "-detect_leaks=0", "-rss_limit_mb=4096", "-print_final_stats=1", "-artifact_prefix=%s/" % os.path.join(wdir, "artifacts")]
    tf = time.time()
    try:
        r = subprocess.run(cmd, cwd=wdir, env=env, stdout=subprocess.PIPE, stderr=subprocess.STDOUT, text=True, timeout=secs * 3 + 600)
        out = r.stdout
    except subprocess.TimeoutExpired:
        inconclusive.append("the fuzzing campaign did not stop in time")
        out = ""
    execs = 0
    for f in os.listdir(wdir):
        if re.match(r"fuzz-\d+\.log", f):
            with open(os.path.join(wdir, f), errors="replace") as fh:
                txt = fh.read()
            m = re.findall(r"stat::number_of_executed_units:\s*(\d+)", txt)
            if m:
                execs += int(m[-1])
    m = re.findall(r"stat::number_of_executed_units:\s*(\d+)", out)
    if m and execs == 0:
        execs = int(m[-1])
    cov["fuzzing"] = {"engine": "libFuzzer via cargo-fuzz, AddressSanitizer, debug assertions on", "seconds": round(time.time() - tf, 1), "jobs": jobs, "executions": execs,
                      "corpus_files_after": len(os.listdir(corpus)), "note": "approximately reproducible only (-seed); saved artifacts are the reproducible unit"}
    asan = os.path.join(d.TARGET, "asan", "x86_64-unknown-linux-gnu", "release", "gv")
    dbg = os.path.join(d.TARGET, "dbg", "debug", "gv")
    arts = sorted(os.listdir(os.path.join(wdir, "artifacts")))
    for a in arts:
        ap = os.path.join(wdir, "artifacts", a)
        if a.startswith("slow-unit-"):
            continue
        if a.startswith("timeout-") or a.startswith("oom-"):
            inconclusive.append("fuzzer artifact %s (time or memory limit, not a verdict)" % a)
            continue
        if not a.startswith("crash-"):
            continue
        dec = subprocess.run([dbg, "decode", "--input", ap], stdout=subprocess.PIPE, text=True, timeout=120)
        if dec.returncode != 0:
            inconclusive.append("fuzzer artifact %s does not decode" % a)
            continue
        case = json.loads(dec.stdout)

        def fails(c, _e=env):
            p = os.path.join(d.OUT, "C05.fuzz.ddmin.json")
            with open(p, "w") as f:
                json.dump(c, f)
            for binp in (dbg, asan):
                if not os.path.exists(binp):
                    continue
                owns, info, crashed = d.replay_one(binp, "C05", p, "quick", env=_e, timeout=120)
                if owns or crashed:
                    return True
            return False

        if fails(case):
            small = d.ddmin_case(None, "C05", case, env, fails)
            path = d.save_replay("C05", {"case": small, "found_by": "libFuzzer", "artifact": a})
            os.makedirs(kept, exist_ok=True) if False else None
            violations.append((path, "[fuzz] libFuzzer artifact %s reproduces as a C05 failure" % a))
        else:
            inconclusive.append("fuzzer artifact %s does not reproduce through the replay binary" % a)

    # ---- Miri: small steered cases, cheap checks (R = 4 and group width 8 there)
    menv = dict(d.ENV)
    menv["MIRIFLAGS"] = "-Zmiri-disable-isolation -Zmiri-ignore-leaks"
    menv["CARGO_TARGET_DIR"] = os.path.join(d.TARGET, "miri")
    menv["GV_MIRI_PROFILE"] = "1"
    menv["GV_CASE_LIMIT_S"] = "14400"
    mout = os.path.join(d.OUT, "C05.miri.json")
    if os.path.exists(mout):
        os.remove(mout)
    ncases = int(os.environ.get("VERIF_MIRI_CASES", "40"))
    tm = time.time()
    try:
        r = subprocess.run(["cargo", "+nightly", "miri", "run", "--offline", "--", "worker", "--prop", "C05", "--tier", "quick", "--seed", str(d.derive_seed(seed, "C05", "miri", 0)), "--cases", str(ncases), "--out", mout],
                           cwd=d.HARNESS, env=menv, stdout=subprocess.PIPE, stderr=subprocess.PIPE, text=True, timeout=3 * 3600)
        if r.returncode == 0 and os.path.exists(mout):
            with open(mout) as f:
                res = json.load(f)
            cov["miri"] = {"cases": res.get("evaluations"), "ops": (res.get("stats") or {}).get("ops"), "seconds": round(time.time() - tm, 1), "flags": menv["MIRIFLAGS"], "note": "R = 4 and 8-wide groups under Miri"}
            if res.get("violation"):
                path = d.save_replay("C05", res["violation"])
                violations.append((path, "[miri] %s" % res["violation"].get("describe", "")))
        elif "Undefined Behavior" in r.stderr or "error: unsupported operation" in r.stderr:
            tail = r.stderr[-2500:]
            cur = os.path.join(d.OUT, "C05.miri.current.json")
            path = d.save_replay("C05", {"miri_report": tail})
            violations.append((path, "[miri] " + " | ".join(tail.splitlines()[-12:])[:800]))
        else:
            inconclusive.append("miri run failed (rc %s): %s" % (r.returncode, r.stderr[-400:].replace("\n", " | ")))
    except subprocess.TimeoutExpired:
        inconclusive.append("miri run exceeded its time limit")
    return violations, inconclusive, cov
