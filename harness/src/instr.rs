//! Instrumentation shared by every check: counting allocator with measurement windows, object
//! ledger, hash log, fault fuse and a silent panic recorder. Everything is thread-local so that a
//! worker process is single-threaded as far as the instrumentation is concerned (rayon worker
//! threads see "window closed" and "fuse off").

use std::alloc::{GlobalAlloc, Layout, System};
use std::cell::{Cell, RefCell};

// ---------------------------------------------------------------------------------------------
// Counting allocator
// ---------------------------------------------------------------------------------------------

thread_local! {
    static WIN: Cell<bool> = const { Cell::new(false) };
    static ALLOCS: Cell<u64> = const { Cell::new(0) };
    static DEALLOCS: Cell<u64> = const { Cell::new(0) };
    static BYTES: Cell<u64> = const { Cell::new(0) };
    /// > 0: inside a measurement window, allocations of at least this many bytes with table
    /// alignment (>= 16) fail (return null)
    static FAIL_ABOVE: Cell<usize> = const { Cell::new(0) };
    static FAILED: Cell<u32> = const { Cell::new(0) };
}

/// arms the allocation limit (0 disarms it)
pub fn alloc_fail_above(bytes: usize) {
    FAIL_ABOVE.with(|c| c.set(bytes));
    FAILED.with(|c| c.set(0));
}
/// disarms the allocation limit when it goes out of scope (also on unwinding)
pub struct AllocLimit;
impl Drop for AllocLimit {
    fn drop(&mut self) {
        let _ = FAIL_ABOVE.try_with(|c| c.set(0));
    }
}
/// disarms the limit and says how many allocations it refused
pub fn alloc_fail_take() -> u32 {
    FAIL_ABOVE.with(|c| c.set(0));
    FAILED.with(|c| c.replace(0))
}
#[inline]
fn refuse(layout: &Layout) -> bool {
    let lim = FAIL_ABOVE.try_with(|c| c.get()).unwrap_or(0);
    if lim > 0 && layout.size() >= lim && layout.align() >= 16 && WIN.try_with(|w| w.get()).unwrap_or(false) {
        let _ = FAILED.try_with(|c| c.set(c.get() + 1));
        true
    } else {
        false
    }
}

pub struct Counting;

unsafe impl GlobalAlloc for Counting {
    unsafe fn alloc(&self, layout: Layout) -> *mut u8 {
        if refuse(&layout) {
            return std::ptr::null_mut();
        }
        let _ = WIN.try_with(|w| {
            if w.get() {
                ALLOCS.with(|c| c.set(c.get() + 1));
                BYTES.with(|c| c.set(c.get() + layout.size() as u64));
            }
        });
        System.alloc(layout)
    }
    unsafe fn dealloc(&self, ptr: *mut u8, layout: Layout) {
        let _ = WIN.try_with(|w| {
            if w.get() {
                DEALLOCS.with(|c| c.set(c.get() + 1));
            }
        });
        System.dealloc(ptr, layout)
    }
    unsafe fn alloc_zeroed(&self, layout: Layout) -> *mut u8 {
        if refuse(&layout) {
            return std::ptr::null_mut();
        }
        let _ = WIN.try_with(|w| {
            if w.get() {
                ALLOCS.with(|c| c.set(c.get() + 1));
                BYTES.with(|c| c.set(c.get() + layout.size() as u64));
            }
        });
        System.alloc_zeroed(layout)
    }
    unsafe fn realloc(&self, ptr: *mut u8, layout: Layout, new_size: usize) -> *mut u8 {
        let _ = WIN.try_with(|w| {
            if w.get() {
                ALLOCS.with(|c| c.set(c.get() + 1));
                DEALLOCS.with(|c| c.set(c.get() + 1));
                BYTES.with(|c| c.set(c.get() + new_size as u64));
            }
        });
        System.realloc(ptr, layout, new_size)
    }
}

/// What one measurement window saw.
#[derive(Clone, Copy, Debug, Default, PartialEq, Eq)]
pub struct AllocCount {
    pub allocs: u64,
    pub deallocs: u64,
    pub bytes: u64,
}

/// RAII: suspends counting (user callbacks, element construction, harness bookkeeping).
pub struct Suspend(bool);
impl Suspend {
    #[inline]
    pub fn new() -> Self {
        Suspend(WIN.with(|w| w.replace(false)))
    }
}
impl Drop for Suspend {
    #[inline]
    fn drop(&mut self) {
        WIN.with(|w| w.set(self.0));
    }
}

struct WinGuard(bool);
impl Drop for WinGuard {
    fn drop(&mut self) {
        WIN.with(|w| w.set(self.0));
    }
}

/// Runs `f` with allocation counting on; returns what was counted. Unwind-safe.
pub fn window<R>(f: impl FnOnce() -> R) -> (R, AllocCount) {
    let a0 = ALLOCS.with(|c| c.get());
    let d0 = DEALLOCS.with(|c| c.get());
    let b0 = BYTES.with(|c| c.get());
    let r = {
        let _g = WinGuard(WIN.with(|w| w.replace(true)));
        f()
    };
    (r, window_since(a0, d0, b0))
}

pub fn counters() -> (u64, u64, u64) {
    (
        ALLOCS.with(|c| c.get()),
        DEALLOCS.with(|c| c.get()),
        BYTES.with(|c| c.get()),
    )
}

pub fn window_since(a0: u64, d0: u64, b0: u64) -> AllocCount {
    AllocCount {
        allocs: ALLOCS.with(|c| c.get()) - a0,
        deallocs: DEALLOCS.with(|c| c.get()) - d0,
        bytes: BYTES.with(|c| c.get()) - b0,
    }
}

/// Opens a window by hand (used where the call is wrapped in `catch_unwind`).
pub fn win_open() -> bool {
    WIN.with(|w| w.replace(true))
}
pub fn win_restore(prev: bool) {
    WIN.with(|w| w.set(prev));
}

// ---------------------------------------------------------------------------------------------
// Object ledger
// ---------------------------------------------------------------------------------------------

#[derive(Default)]
pub struct Ledger {
    /// 0 = unborn, 1 = live, 2 = dropped
    state: Vec<u8>,
    pub errors: Vec<String>,
    pub created: u64,
    pub dropped: u64,
}

thread_local! {
    static LEDGER: RefCell<Ledger> = RefCell::new(Ledger::default());
}

pub fn ledger_reset() {
    let _s = Suspend::new();
    LEDGER.with(|l| {
        let mut l = l.borrow_mut();
        l.state.clear();
        l.state.push(2); // id 0 is never a tracked object
        l.errors.clear();
        l.created = 0;
        l.dropped = 0;
    });
}

pub fn ledger_new_id() -> u32 {
    LEDGER.with(|l| {
        let mut l = l.borrow_mut();
        if l.state.is_empty() {
            l.state.push(2);
        }
        let id = l.state.len() as u32;
        l.state.push(1);
        l.created += 1;
        id
    })
}

pub fn ledger_drop(id: u32, what: &str) {
    LEDGER.with(|l| {
        let mut l = l.borrow_mut();
        match l.state.get(id as usize).copied() {
            Some(1) => {
                l.state[id as usize] = 2;
                l.dropped += 1;
            }
            Some(2) => {
                if l.errors.len() < 16 {
                    l.errors.push(format!("double-drop {} id={}", what, id));
                }
            }
            _ => {
                if l.errors.len() < 16 {
                    l.errors.push(format!("drop-of-unknown {} id={}", what, id));
                }
            }
        }
    });
}

pub fn ledger_check_live(id: u32, what: &str, access: &str) {
    LEDGER.with(|l| {
        let mut l = l.borrow_mut();
        match l.state.get(id as usize).copied() {
            Some(1) => {}
            Some(2) => {
                if l.errors.len() < 16 {
                    l.errors
                        .push(format!("use-after-drop {} id={} in {}", what, id, access));
                }
            }
            _ => {
                if l.errors.len() < 16 {
                    l.errors
                        .push(format!("use-of-unknown {} id={} in {}", what, id, access));
                }
            }
        }
    });
}

pub fn ledger_error(msg: String) {
    LEDGER.with(|l| {
        let mut l = l.borrow_mut();
        if l.errors.len() < 16 {
            l.errors.push(msg);
        }
    });
}

pub fn ledger_is_live(id: u32) -> bool {
    LEDGER.with(|l| l.borrow().state.get(id as usize).copied() == Some(1))
}

pub fn ledger_take_errors() -> Vec<String> {
    LEDGER.with(|l| std::mem::take(&mut l.borrow_mut().errors))
}

pub fn ledger_has_errors() -> bool {
    LEDGER.with(|l| !l.borrow().errors.is_empty())
}

/// ids that are still live (not dropped)
pub fn ledger_live_ids() -> Vec<u32> {
    LEDGER.with(|l| {
        l.borrow()
            .state
            .iter()
            .enumerate()
            .filter(|(_, s)| **s == 1)
            .map(|(i, _)| i as u32)
            .collect()
    })
}

pub fn ledger_counts() -> (u64, u64) {
    LEDGER.with(|l| {
        let l = l.borrow();
        (l.created, l.dropped)
    })
}

// ---------------------------------------------------------------------------------------------
// Hash log
// ---------------------------------------------------------------------------------------------

thread_local! {
    static HLOG_ON: Cell<bool> = const { Cell::new(false) };
    static HLOG: RefCell<Vec<(u32, u32)>> = const { RefCell::new(Vec::new()) };
    static HLOG_TOTAL: Cell<u64> = const { Cell::new(0) };
}

pub fn hlog_start() {
    HLOG.with(|h| h.borrow_mut().clear());
    HLOG_ON.with(|c| c.set(true));
}
pub fn hlog_stop() -> Vec<(u32, u32)> {
    HLOG_ON.with(|c| c.set(false));
    HLOG.with(|h| std::mem::take(&mut *h.borrow_mut()))
}
/// cheap variant for very long bulk operations: stop without taking, caller reads len
pub fn hlog_len() -> usize {
    HLOG.with(|h| h.borrow().len())
}
#[inline]
pub fn hlog_push(key: u32, id: u32) {
    if HLOG_ON.with(|c| c.get()) {
        let _s = Suspend::new();
        HLOG_TOTAL.with(|c| c.set(c.get() + 1));
        HLOG.with(|h| {
            let mut h = h.borrow_mut();
            if h.len() < 1 << 22 {
                h.push((key, id));
            }
        });
    }
}

// ---------------------------------------------------------------------------------------------
// Fuse (fault injection)
// ---------------------------------------------------------------------------------------------

pub const K_HASH: usize = 0;
pub const K_EQ: usize = 1;
pub const K_CLONE: usize = 2;
pub const K_CLOSURE: usize = 3;
pub const K_VEQ: usize = 4;
pub const N_KINDS: usize = 5;
pub const KIND_NAMES: [&str; N_KINDS] = ["hash", "eq", "clone", "closure", "value-eq"];

thread_local! {
    static FUSE_MODE: Cell<u8> = const { Cell::new(0) }; // 0 off, 1 count, 2 armed
    static FUSE_KIND: Cell<usize> = const { Cell::new(0) };
    static FUSE_N: Cell<u32> = const { Cell::new(0) };
    static FUSE_COUNTS: [Cell<u32>; N_KINDS] = const { [Cell::new(0), Cell::new(0), Cell::new(0), Cell::new(0), Cell::new(0)] };
    static FUSE_FIRED: Cell<bool> = const { Cell::new(false) };
    static FUSE_ACTIVE: Cell<bool> = const { Cell::new(false) };
    /// (key a, id a, key b, id b) handed to the callback that blew
    static FUSE_CULPRIT: Cell<(u32, u32, u32, u32)> = const { Cell::new((0, 0, 0, 0)) };
}

/// Marker payload of an injected panic.
pub struct FuseMarker;

pub fn fuse_off() {
    FUSE_MODE.with(|c| c.set(0));
    FUSE_ACTIVE.with(|c| c.set(false));
}
/// ticks only count while the interpreter is inside an observed call
pub fn fuse_set_active(on: bool) {
    FUSE_ACTIVE.with(|c| c.set(on));
}
pub fn fuse_count_mode() {
    FUSE_COUNTS.with(|cs| cs.iter().for_each(|c| c.set(0)));
    FUSE_FIRED.with(|c| c.set(false));
    FUSE_MODE.with(|c| c.set(1));
}
pub fn fuse_counts() -> [u32; N_KINDS] {
    FUSE_COUNTS.with(|cs| {
        let mut out = [0u32; N_KINDS];
        for (i, c) in cs.iter().enumerate() {
            out[i] = c.get();
        }
        out
    })
}
pub fn fuse_arm(kind: usize, n: u32) {
    FUSE_COUNTS.with(|cs| cs.iter().for_each(|c| c.set(0)));
    FUSE_FIRED.with(|c| c.set(false));
    FUSE_KIND.with(|c| c.set(kind));
    FUSE_N.with(|c| c.set(n));
    FUSE_CULPRIT.with(|c| c.set((0, 0, 0, 0)));
    FUSE_MODE.with(|c| c.set(2));
}
pub fn fuse_fired() -> bool {
    FUSE_FIRED.with(|c| c.get())
}
pub fn fuse_culprit() -> (u32, u32, u32, u32) {
    FUSE_CULPRIT.with(|c| c.get())
}

/// Called by every user callback. `a`/`b` identify the element(s) handed to the callback.
#[inline]
pub fn tick(kind: usize, a: (u32, u32), b: (u32, u32)) {
    let mode = FUSE_MODE.with(|c| c.get());
    if mode == 0 || !FUSE_ACTIVE.with(|c| c.get()) {
        return;
    }
    if mode == 1 {
        FUSE_COUNTS.with(|cs| cs[kind].set(cs[kind].get() + 1));
        return;
    }
    if FUSE_KIND.with(|c| c.get()) != kind {
        return;
    }
    let n = FUSE_N.with(|c| c.get());
    if n <= 1 {
        FUSE_MODE.with(|c| c.set(0));
        FUSE_FIRED.with(|c| c.set(true));
        FUSE_CULPRIT.with(|c| c.set((a.0, a.1, b.0, b.1)));
        let _s = Suspend::new();
        std::panic::panic_any(FuseMarker);
    } else {
        FUSE_N.with(|c| c.set(n - 1));
    }
}

// ---------------------------------------------------------------------------------------------
// Silent panic recorder
// ---------------------------------------------------------------------------------------------

thread_local! {
    static LAST_PANIC: RefCell<Option<(String, String)>> = const { RefCell::new(None) };
    static PANIC_QUIET: Cell<bool> = const { Cell::new(false) };
    static PANIC_COUNT: Cell<u64> = const { Cell::new(0) };
}

/// number of panics raised on this thread so far (caught or not)
pub fn panic_count() -> u64 {
    PANIC_COUNT.with(|c| c.get())
}

/// Installs a process-wide hook that records (message, location) of panics raised on threads
/// that asked for quiet mode, and prints nothing for them.
pub fn install_panic_hook() {
    let default = std::panic::take_hook();
    std::panic::set_hook(Box::new(move |info| {
        let _ = PANIC_COUNT.try_with(|c| c.set(c.get() + 1));
        let quiet = PANIC_QUIET.try_with(|c| c.get()).unwrap_or(false);
        if quiet {
            let _s = Suspend::new();
            let msg = if let Some(s) = info.payload().downcast_ref::<&str>() {
                (*s).to_string()
            } else if let Some(s) = info.payload().downcast_ref::<String>() {
                s.clone()
            } else if info.payload().is::<FuseMarker>() {
                "<<fuse>>".to_string()
            } else {
                "<<non-string payload>>".to_string()
            };
            let loc = info
                .location()
                .map(|l| format!("{}:{}", l.file(), l.line()))
                .unwrap_or_default();
            let _ = LAST_PANIC.try_with(|p| {
                if let Ok(mut p) = p.try_borrow_mut() {
                    *p = Some((msg, loc));
                }
            });
        } else {
            default(info);
        }
    }));
}

pub fn panic_quiet(on: bool) -> bool {
    PANIC_QUIET.with(|c| c.replace(on))
}

pub fn take_last_panic() -> Option<(String, String)> {
    LAST_PANIC.with(|p| p.borrow_mut().take())
}

/// Normalises a panic location so that it is stable across machines: keeps the crate-relative
/// tail (`hashbrown-0.14.5/src/raw/mod.rs:4034`, `src/raw/mod.rs:232`).
pub fn norm_loc(loc: &str) -> String {
    if let Some(i) = loc.find("hashbrown-") {
        return loc[i..].to_string();
    }
    if let Some(i) = loc.find("griddle/") {
        return loc[i..].to_string();
    }
    if let Some(i) = loc.find("/library/") {
        return loc[i + 1..].to_string();
    }
    loc.to_string()
}

/// `catch_unwind` for harness-made calls outside `observe`: activates the fuse while `f` runs (if
/// a fault is armed) and lets an injected fault propagate to the fault driver.
pub fn fcall<R>(armed: bool, f: impl FnOnce() -> R) -> std::thread::Result<R> {
    if armed {
        fuse_set_active(true);
    }
    let r = std::panic::catch_unwind(std::panic::AssertUnwindSafe(f));
    fuse_set_active(false);
    match r {
        Err(p) if p.is::<FuseMarker>() => std::panic::resume_unwind(p),
        other => other,
    }
}
