//! Iterator battery (C08), drain / into_iter, retain / drain_filter (C09).

use crate::elems::*;
use crate::instr::*;
use crate::interp::*;
use crate::ops::*;
use std::collections::BTreeSet;

type Item = (u32, u32, u32, u32);

fn perr(errs: &mut Vec<String>, msg: String) {
    let _s = Suspend::new();
    if errs.len() < 6 {
        errs.push(msg);
    }
}

macro_rules! ic {
    ($errs:expr, $cond:expr, $($arg:tt)*) => {
        if !($cond) {
            let _s = Suspend::new();
            let m = format!($($arg)*);
            perr(&mut $errs, m);
        }
    };
}

/// how many numbers the Debug output of `x` contains (elements print as `PK(1)`, `TV(7)`, ...)
pub fn debug_numbers<D: std::fmt::Debug>(x: &D) -> usize {
    let _s = Suspend::new();
    let txt = format!("{:?}", x);
    txt.split(|c: char| !c.is_ascii_digit()).filter(|t| !t.is_empty()).count()
}

/// drives any exact-size iterator, checking len()/size_hint() at every step
fn drive<I, T>(
    mut it: I,
    n: usize,
    clone_idx: Option<usize>,
    extra: u8,
    cloner: impl Fn(&I) -> Option<I>,
    mut conv: impl FnMut(T) -> Item,
    out: &mut Vec<Item>,
    cl: &mut Vec<Item>,
    errs: &mut Vec<String>,
    what: &str,
    per: usize,
) where
    I: Iterator<Item = T> + ExactSizeIterator + std::fmt::Debug,
{
    let mut rem = n;
    let mut i = 0usize;
    let mut cloned: Option<I> = None;
    let dbg_at = clone_idx.unwrap_or(n / 2);
    loop {
        let l = it.len();
        let sh = it.size_hint();
        ic!(*errs, l == rem && sh == (rem, Some(rem)), "{}: after {} items len() = {}, size_hint() = {:?}, but {} remain", what, i, l, sh, rem);
        if (i == 0 || i == dbg_at) && rem <= 20_000 {
            // Debug of an iterator lists what is still to come, without consuming anything
            let c = debug_numbers(&it);
            ic!(*errs, c == rem * per, "{}: after {} items its Debug output lists {} numbers, {} expected ({} items remain)", what, i, c, rem * per, rem);
        }
        if Some(i) == clone_idx {
            cloned = cloner(&it);
        }
        match it.next() {
            Some(x) => {
                let item = conv(x);
                if out.len() < out.capacity() {
                    out.push(item);
                }
                ic!(*errs, rem > 0, "{}: yielded more than len() items", what);
                rem = rem.saturating_sub(1);
            }
            None => break,
        }
        i += 1;
        if i > n + 4 {
            perr(errs, format!("{}: does not terminate", what));
            break;
        }
    }
    ic!(*errs, rem == 0, "{}: stopped with {} items still expected", what, rem);
    for _ in 0..extra {
        ic!(*errs, it.next().is_none(), "{}: yielded an item after None", what);
        ic!(*errs, it.len() == 0, "{}: len() != 0 after exhaustion", what);
    }
    if let Some(mut c) = cloned {
        let want = n - clone_idx.unwrap_or(0).min(n);
        ic!(*errs, c.len() == want, "{}: clone taken at {} reports len() = {}, expected {}", what, clone_idx.unwrap_or(0), c.len(), want);
        let mut j = 0;
        while let Some(x) = c.next() {
            if cl.len() < cl.capacity() {
                cl.push(conv(x));
            }
            j += 1;
            if j > n + 4 {
                break;
            }
        }
    }
}

/// iterator methods beyond next(): count, nth, last, and len() after nth (defaults today; a
/// specialisation of any of them has to agree with what next() enumerates)
fn beyond_next<I, T>(mk: impl Fn() -> I, conv: impl Fn(T) -> Item, out: &[Item], j: usize, errs: &mut Vec<String>, what: &str)
where
    I: Iterator<Item = T> + ExactSizeIterator,
{
    let n = out.len();
    let c = mk().count();
    ic!(*errs, c == n, "{}: count() = {}, next() yields {}", what, c, n);
    if n == 0 {
        ic!(*errs, mk().last().is_none() && mk().nth(0).is_none(), "{}: last()/nth(0) of an empty iterator is Some", what);
        return;
    }
    let j = j.min(n - 1);
    let l = mk().last().map(&conv);
    ic!(*errs, l == Some(out[n - 1]), "{}: last() = {:?}, the last item next() yields is {:?}", what, l, out[n - 1]);
    let mut it = mk();
    let x = it.nth(j).map(&conv);
    ic!(*errs, x == Some(out[j]), "{}: nth({}) = {:?}, the item next() yields there is {:?}", what, j, x, out[j]);
    ic!(*errs, it.len() == n - j - 1 && it.size_hint() == (n - j - 1, Some(n - j - 1)), "{}: after nth({}) len() = {}, {} remain", what, j, it.len(), n - j - 1);
    let y = it.next().map(&conv);
    ic!(*errs, y == out.get(j + 1).copied(), "{}: the item after nth({}) is {:?}, expected {:?}", what, j, y, out.get(j + 1));
    ic!(*errs, mk().nth(n).is_none(), "{}: nth(len) is Some", what);
    let sk = mk().skip(j).count();
    ic!(*errs, sk == n - j, "{}: skip({}).count() = {}, expected {}", what, j, sk, n - j);
}

impl<F: Fam> Ctx<F> {
    pub fn do_iterate(&mut self, s: usize, kind: IterKind, clone_at: Option<u16>, extra: u8, write: Option<u32>) -> Result<(), Fail> {
        let n = self.slots[s].model.len();
        let pre = self.st(s);
        if pre.l() > 0 {
            self.nt(C08);
        }
        let clone_idx = clone_at.map(|j| (j as usize * (n + 1)) >> 16);
        let mut out: Vec<Item> = Vec::with_capacity(n + 8);
        let mut cl: Vec<Item> = Vec::with_capacity(n + 8);
        let mut zipped: Vec<Item> = Vec::with_capacity(n + 8);
        let mut folded: Vec<Item> = Vec::with_capacity(n + 8);
        let mut errs: Vec<String> = Vec::with_capacity(8);
        let extra = extra % 4;
        // internal iteration (fold / for_each) of what is left after `skip` calls of next() has to
        // enumerate exactly what further next() calls enumerate, in the same order
        let skip = clone_idx.unwrap_or(0).min(n);
        let ((out, cl, zipped, errs), obs) = self.observe(s, true, &[C08], move |m| {
            match kind {
                IterKind::Iter => drive(m.iter(), n, clone_idx, extra, |i| Some(i.clone()), |(k, v): (&F::K, &F::V)| (k.k(), k.id(), v.v(), v.id()), &mut out, &mut cl, &mut errs, "iter()", 2),
                IterKind::RefIntoIter => drive((&*m).into_iter(), n, clone_idx, extra, |i| Some(i.clone()), |(k, v): (&F::K, &F::V)| (k.k(), k.id(), v.v(), v.id()), &mut out, &mut cl, &mut errs, "(&map).into_iter()", 2),
                IterKind::Keys => {
                    drive(m.keys(), n, clone_idx, extra, |i| Some(i.clone()), |k: &F::K| (k.k(), k.id(), 0, 0), &mut out, &mut cl, &mut errs, "keys()", 1);
                    for (k, v) in m.keys().zip(m.values()) {
                        if zipped.len() < zipped.capacity() {
                            zipped.push((k.k(), k.id(), v.v(), v.id()));
                        }
                    }
                }
                IterKind::Values => {
                    drive(m.values(), n, clone_idx, extra, |i| Some(i.clone()), |v: &F::V| (0, 0, v.v(), v.id()), &mut out, &mut cl, &mut errs, "values()", 1);
                    for (k, v) in m.keys().zip(m.values()) {
                        if zipped.len() < zipped.capacity() {
                            zipped.push((k.k(), k.id(), v.v(), v.id()));
                        }
                    }
                }
                IterKind::IterMut => drive(
                    m.iter_mut(),
                    n,
                    None,
                    extra,
                    |_| None,
                    |(k, v): (&F::K, &mut F::V)| {
                        let r = (k.k(), k.id(), v.v(), v.id());
                        if let Some(d) = write {
                            v.set(r.2.wrapping_add(d));
                        }
                        r
                    },
                    &mut out,
                    &mut cl,
                    &mut errs,
                    "iter_mut()",
                    2,
                ),
                IterKind::MutIntoIter => drive(
                    (&mut *m).into_iter(),
                    n,
                    None,
                    extra,
                    |_| None,
                    |(k, v): (&F::K, &mut F::V)| {
                        let r = (k.k(), k.id(), v.v(), v.id());
                        if let Some(d) = write {
                            v.set(r.2.wrapping_add(d));
                        }
                        r
                    },
                    &mut out,
                    &mut cl,
                    &mut errs,
                    "(&mut map).into_iter()",
                    2,
                ),
                IterKind::ValuesMut => drive(
                    m.values_mut(),
                    n,
                    None,
                    extra,
                    |_| None,
                    |v: &mut F::V| {
                        let r = (0, 0, v.v(), v.id());
                        if let Some(d) = write {
                            v.set(r.2.wrapping_add(d));
                        }
                        r
                    },
                    &mut out,
                    &mut cl,
                    &mut errs,
                    "values_mut()",
                    2,
                ),
            }
            // (maps above 20 000 elements only get the plain traversal: these extra passes would
            // multiply the cost of the few very large cases of the thorough tier)
            let small = n <= 20_000;
            match kind {
                _ if !small => {}
                IterKind::Iter | IterKind::RefIntoIter => {
                    let mut it = m.iter();
                    for _ in 0..skip {
                        it.next();
                    }
                    it.for_each(|(k, v)| {
                        if folded.len() < folded.capacity() {
                            folded.push((k.k(), k.id(), v.v(), v.id()));
                        }
                    });
                }
                IterKind::Keys => {
                    let mut it = m.keys();
                    for _ in 0..skip {
                        it.next();
                    }
                    let cnt = it.fold(0usize, |acc, k| {
                        if folded.len() < folded.capacity() {
                            folded.push((k.k(), k.id(), 0, 0));
                        }
                        acc + 1
                    });
                    ic!(errs, cnt == n - skip, "keys(): fold visited {} items after {} next() calls, {} remain", cnt, skip, n - skip);
                }
                IterKind::Values => {
                    let mut it = m.values();
                    for _ in 0..skip {
                        it.next();
                    }
                    it.for_each(|v| {
                        if folded.len() < folded.capacity() {
                            folded.push((0, 0, v.v(), v.id()));
                        }
                    });
                }
                IterKind::IterMut | IterKind::MutIntoIter => {
                    let mut it = m.iter_mut();
                    for _ in 0..skip {
                        it.next();
                    }
                    it.for_each(|(k, v)| {
                        if folded.len() < folded.capacity() {
                            folded.push((k.k(), k.id(), v.v(), v.id()));
                        }
                    });
                }
                IterKind::ValuesMut => {
                    let mut it = m.values_mut();
                    for _ in 0..skip {
                        it.next();
                    }
                    it.for_each(|v| {
                        if folded.len() < folded.capacity() {
                            folded.push((0, 0, v.v(), v.id()));
                        }
                    });
                }
            }
            if out.len() == n && small {
                match kind {
                    IterKind::Iter => beyond_next(|| m.iter(), |(k, v): (&F::K, &F::V)| (k.k(), k.id(), v.v(), v.id()), &out, skip, &mut errs, "iter()"),
                    IterKind::RefIntoIter => beyond_next(|| (&*m).into_iter(), |(k, v): (&F::K, &F::V)| (k.k(), k.id(), v.v(), v.id()), &out, skip, &mut errs, "(&map).into_iter()"),
                    IterKind::Keys => beyond_next(|| m.keys(), |k: &F::K| (k.k(), k.id(), 0, 0), &out, skip, &mut errs, "keys()"),
                    IterKind::Values => beyond_next(|| m.values(), |v: &F::V| (0, 0, v.v(), v.id()), &out, skip, &mut errs, "values()"),
                    _ => {}
                }
                let same = match kind {
                    // the mutable kinds were driven with a write: compare keys / ids only
                    IterKind::IterMut | IterKind::MutIntoIter | IterKind::ValuesMut => folded.len() == n - skip && folded.iter().zip(out[skip..].iter()).all(|(a, b)| a.0 == b.0 && a.1 == b.1 && a.3 == b.3),
                    _ => folded.as_slice() == &out[skip..],
                };
                ic!(errs, same, "{:?}: internal iteration (fold / for_each) after {} next() calls enumerated {} items in an order or multiset different from what next() yields from there ({} items)", kind, skip, folded.len(), n - skip);
            }
            {
                // allocated outside the measurement window, so it must not be freed inside it
                let _s = Suspend::new();
                drop(folded);
            }
            (out, cl, zipped, errs)
        })?;
        if !errs.is_empty() {
            return Err(self.mkfail(vec![C08], "iterator-protocol", errs.join("; "), String::new()));
        }
        // the clone continues exactly where the original was
        if let Some(ci) = clone_idx {
            if matches!(kind, IterKind::Iter | IterKind::RefIntoIter | IterKind::Keys | IterKind::Values) {
                let tail = &out[ci.min(out.len())..];
                if cl.as_slice() != tail {
                    fail!(self, [C08], "iterator-clone", "clone taken after {} items yielded {} items, the original yielded {} from there", ci, cl.len(), tail.len());
                }
            }
        }
        // multiset against the model
        let model = &self.slots[s].model;
        let mut got = out.clone();
        got.sort_unstable();
        let want: Vec<Item> = match kind {
            IterKind::Keys => model.iter().map(|(k, e)| (*k, e.kid, 0, 0)).collect(),
            IterKind::Values | IterKind::ValuesMut => {
                let mut w: Vec<Item> = model.iter().map(|(_, e)| (0, 0, e.v, e.vid)).collect();
                w.sort_unstable();
                w
            }
            _ => model.iter().map(|(k, e)| (*k, e.kid, e.v, e.vid)).collect(),
        };
        if got != want {
            let extra_items: Vec<&Item> = got.iter().filter(|x| want.binary_search(x).is_err()).take(3).collect();
            let missing: Vec<&Item> = want.iter().filter(|x| got.binary_search(x).is_err()).take(3).collect();
            fail!(self, [C08], "iterator-multiset", "{:?} yielded {} items, reference has {}; unexpected {:?}, missing {:?}", kind, got.len(), want.len(), extra_items, missing);
        }
        if matches!(kind, IterKind::Keys | IterKind::Values) {
            if zipped.len() != model.len() {
                fail!(self, [C08], "keys-values-order", "keys().zip(values()) has {} pairs, reference {}", zipped.len(), model.len());
            }
            for z in &zipped {
                match model.get(&z.0) {
                    Some(e) if e.kid == z.1 && e.v == z.2 && e.vid == z.3 => {}
                    other => {
                        fail!(self, [C08], "keys-values-order", "keys() and values() enumerate in different orders: key {} paired with value {} (id {}), reference {:?}", z.0, z.2, z.3, other);
                    }
                }
            }
        }
        if let Some(d) = write {
            if matches!(kind, IterKind::IterMut | IterKind::MutIntoIter | IterKind::ValuesMut) {
                for e in self.slots[s].model.values_mut() {
                    e.v = e.v.wrapping_add(d);
                }
            }
        }
        let mut f = Facts::of(Kind::Bulk);
        f.listed = matches!(kind, IterKind::IterMut | IterKind::ValuesMut | IterKind::MutIntoIter);
        self.judge(s, &obs, &f)?;
        self.after_op(s, &[C01, C08], true)
    }

    pub fn do_drain(&mut self, s: usize, take: Option<u16>, forget: bool) -> Result<(), Fail> {
        let n = self.slots[s].model.len();
        let pre = self.st(s);
        if pre.l() > 0 {
            self.nt(C08);
            self.nt(C06);
        }
        let take_n = take.map_or(n, |t| (t as usize * (n + 1)) >> 16);
        let mut out: Vec<Item> = Vec::with_capacity(n + 8);
        let mut errs: Vec<String> = Vec::with_capacity(8);
        self.forget_in_flight = forget;
        let ((out, errs), obs) = self.observe(s, false, &[C08], move |m| {
            let mut d = m.drain();
            let mut rem = n;
            for i in 0..take_n {
                let l = d.len();
                let sh = d.size_hint();
                ic!(errs, l == rem && sh == (rem, Some(rem)), "drain(): after {} items len() = {}, size_hint() = {:?}, but {} remain", i, l, sh, rem);
                if (i == 0 || i == take_n / 2) && rem <= 20_000 {
                    let c = debug_numbers(&d);
                    ic!(errs, c == rem * 2, "drain(): after {} items its Debug output lists {} numbers, {} items remain", i, c, rem);
                }
                match d.next() {
                    Some((k, v)) => {
                        k.check("drain");
                        v.check("drain");
                        if out.len() < out.capacity() {
                            out.push((k.k(), k.id(), v.v(), v.id()));
                        }
                        rem = rem.saturating_sub(1);
                        drop((k, v));
                    }
                    None => {
                        perr(&mut errs, format!("drain(): ended after {} items, {} expected", i, n));
                        break;
                    }
                }
            }
            ic!(errs, d.len() == rem, "drain(): len() = {} after taking {}, {} remain", d.len(), take_n, rem);
            if take_n >= n {
                ic!(errs, d.next().is_none(), "drain(): yielded more than len() items");
                ic!(errs, d.next().is_none(), "drain(): yielded an item after None");
            }
            if forget {
                std::mem::forget(d);
            } else {
                if take_n % 3 == 1 {
                    // stepping past the end (nth, as skip and step_by do) consumes what is left
                    // and leaves an exhausted iterator
                    ic!(errs, d.nth(rem + 1).is_none(), "drain(): nth({}) with {} items left is Some", rem + 1, rem);
                    ic!(errs, d.len() == 0 && d.size_hint() == (0, Some(0)) && d.next().is_none(), "drain(): after nth() past the end len() = {}, not exhausted", d.len());
                }
                drop(d);
            }
            (out, errs)
        })?;
        if !errs.is_empty() {
            return Err(self.mkfail(vec![C08], "iterator-protocol", errs.join("; "), String::new()));
        }
        self.check_yielded(s, &out, "drain()", &[C08, C06])?;
        if forget {
            // elements not yet yielded and the table(s) the iterator owned are leaked: allowed
            let yielded: BTreeSet<u32> = out.iter().map(|x| x.0).collect();
            for (k, e) in self.slots[s].model.iter() {
                if !yielded.contains(k) {
                    self.allow_leak.insert(e.kid);
                    self.allow_leak.insert(e.vid);
                }
            }
            let st = self.st(s);
            self.meta[s].live = if st.hook.main_buckets > 1 { 1 } else { 0 };
            self.forget_in_flight = false;
        }
        self.slots[s].model.clear();
        if obs.post.len != 0 {
            fail!(self, [C08, C01], "drain-left-elements", "map has {} elements after drain (forget = {})", obs.post.len, forget);
        }
        let mut f = Facts::of(Kind::Bulk);
        f.clears = true;
        self.judge(s, &obs, &f)?;
        self.after_op(s, &[C08, C01], true)
    }

    /// every yielded element is one the model has, with the right identities, at most once
    fn check_yielded(&mut self, s: usize, out: &[Item], what: &str, tags: &[Prop]) -> Result<(), Fail> {
        let mut seen = BTreeSet::new();
        for it in out {
            if !seen.insert(it.0) {
                return Err(self.mkfail(tags.to_vec(), "yielded-twice", format!("{} yielded key {} twice", what, it.0), String::new()));
            }
            match self.slots[s].model.get(&it.0) {
                Some(e) if e.kid == it.1 && e.v == it.2 && e.vid == it.3 => {}
                other => {
                    return Err(self.mkfail(tags.to_vec(), "yielded-unknown", format!("{} yielded {:?}, reference entry is {:?}", what, it, other), String::new()));
                }
            }
        }
        Ok(())
    }

    pub fn do_into_iter(&mut self, s: usize, take: Option<u16>) -> Result<(), Fail> {
        let n = self.slots[s].model.len();
        let pre = self.st(s);
        if pre.l() > 0 {
            self.nt(C08);
            self.nt(C06);
        }
        let take_n = take.map_or(n, |t| (t as usize * (n + 1)) >> 16);
        let vh = self.meta[s].vh;
        let old = std::mem::replace(&mut self.slots[s].map, Map::<F>::with_hasher(vh));
        let mut out: Vec<Item> = Vec::with_capacity(n + 8);
        let mut errs: Vec<String> = Vec::with_capacity(8);
        let prevq = panic_quiet(true);
        let _ = take_last_panic();
        let (r, al) = window(|| {
            std::panic::catch_unwind(std::panic::AssertUnwindSafe(|| {
                let mut it = old.into_iter();
                let mut rem = n;
                for i in 0..take_n {
                    let l = it.len();
                    let sh = it.size_hint();
                    ic!(errs, l == rem && sh == (rem, Some(rem)), "into_iter(): after {} items len() = {}, size_hint() = {:?}, but {} remain", i, l, sh, rem);
                    if (i == 0 || i == take_n / 2) && rem <= 20_000 {
                        let c = debug_numbers(&it);
                        ic!(errs, c == rem * 2, "into_iter(): after {} items its Debug output lists {} numbers, {} items remain", i, c, rem);
                    }
                    match it.next() {
                        Some((k, v)) => {
                            k.check("into_iter");
                            v.check("into_iter");
                            if out.len() < out.capacity() {
                                out.push((k.k(), k.id(), v.v(), v.id()));
                            }
                            rem = rem.saturating_sub(1);
                            drop((k, v));
                        }
                        None => {
                            perr(&mut errs, format!("into_iter(): ended after {} items, {} expected", i, n));
                            break;
                        }
                    }
                }
                ic!(errs, it.len() == rem, "into_iter(): len() = {} after taking {}, {} remain", it.len(), take_n, rem);
                if take_n % 3 == 1 && take_n < n {
                    ic!(errs, it.nth(rem + 1).is_none(), "into_iter(): nth({}) with {} items left is Some", rem + 1, rem);
                    ic!(errs, it.len() == 0 && it.size_hint() == (0, Some(0)) && it.next().is_none(), "into_iter(): after nth() past the end len() = {}, not exhausted", it.len());
                }
                if take_n >= n {
                    ic!(errs, it.next().is_none(), "into_iter(): yielded more than len() items");
                    ic!(errs, it.next().is_none(), "into_iter(): yielded an item after None");
                }
                drop(it);
            }))
        });
        panic_quiet(prevq);
        if r.is_err() {
            let (msg, loc) = take_last_panic().unwrap_or_default();
            let p = PanicInfo { msg, loc: norm_loc(&loc) };
            return Err(self.unexpected_panic(&p, &pre, false, &[C08]));
        }
        if !errs.is_empty() {
            return Err(self.mkfail(vec![C08], "iterator-protocol", errs.join("; "), String::new()));
        }
        self.check_yielded(s, &out, "into_iter()", &[C08, C06])?;
        if out.len() != take_n.min(n) {
            fail!(self, [C08], "iterator-multiset", "into_iter() yielded {} of {} requested items (map had {})", out.len(), take_n, n);
        }
        let live = self.meta[s].live + al.allocs as i64 - al.deallocs as i64;
        if live != 0 {
            fail!(self, [C06], "tables-alive-after-drop", "{} table allocation(s) still alive after into_iter() was dropped", live);
        }
        self.slots[s].model.clear();
        self.meta[s] = Meta::new(vh, 0);
        self.ledger_check(&[C06])?;
        self.after_op(s, &[C08], true)
    }

    pub fn old_keys_pub(&mut self, s: usize) -> BTreeSet<u32> {
        self.old_keys(s)
    }

    fn old_keys(&mut self, s: usize) -> BTreeSet<u32> {
        let mut set = BTreeSet::new();
        if self.slots[s].map.verif_state().old.map_or(0, |o| o.len) == 0 {
            return set;
        }
        let keys: Vec<u32> = self.slots[s].model.keys().copied().collect();
        for k in keys {
            if self.in_old(s, k) == Some(true) {
                set.insert(k);
            }
        }
        set
    }

    pub fn do_retain(&mut self, s: usize, pred: Pred, mutate: Option<u32>) -> Result<(), Fail> {
        let n = self.slots[s].model.len();
        let pre = self.st(s);
        let old = self.old_keys(s);
        if pre.l() > 0 {
            self.nt(C09);
        }
        let mut log: Vec<Item> = Vec::with_capacity(n + 8);
        let oldc = &old;
        let (log, obs) = self.observe(s, false, &[C09], move |m| {
            m.retain(|k, v| {
                tick(K_CLOSURE, (k.k(), k.id()), (0, 0));
                let _s = Suspend::new();
                k.check("retain");
                let cur = v.v();
                if log.len() < log.capacity() {
                    log.push((k.k(), k.id(), cur, v.id()));
                }
                if let Some(d) = mutate {
                    v.set(cur.wrapping_add(d));
                }
                pred_eval(pred, k.k(), cur, oldc)
            });
            log
        })?;
        // the predicate saw every element exactly once
        let mut seen = log.clone();
        seen.sort_unstable();
        let want: Vec<Item> = self.slots[s].model.iter().map(|(k, e)| (*k, e.kid, e.v, e.vid)).collect();
        if seen != want {
            let dup = seen.windows(2).find(|p| p[0].0 == p[1].0).map(|p| p[0].0);
            fail!(self, [C09], "retain-call-log", "retain called the predicate {} times for {} elements (duplicate key {:?})", seen.len(), want.len(), dup);
        }
        let mut removed_old = 0;
        let model = &mut self.slots[s].model;
        let mut gone = Vec::new();
        for (k, e) in model.iter_mut() {
            let keep = pred_eval(pred, *k, e.v, &old);
            if let Some(d) = mutate {
                e.v = e.v.wrapping_add(d);
            }
            if !keep {
                gone.push(*k);
                if old.contains(k) {
                    removed_old += 1;
                }
            }
        }
        for k in gone {
            model.remove(&k);
        }
        if removed_old > 0 {
            self.nt(C06);
        }
        let mut f = Facts::of(Kind::Bulk);
        f.removed_from_old = removed_old;
        f.removed_lingering = true;
        self.judge(s, &obs, &f)?;
        self.after_op(s, &[C09], true)
    }

    pub fn do_drain_filter(&mut self, s: usize, pred: Pred, mutate: Option<u32>, take: Option<u16>, forget: bool) -> Result<(), Fail> {
        let n = self.slots[s].model.len();
        let pre = self.st(s);
        let old = self.old_keys(s);
        if pre.l() > 0 {
            self.nt(C09);
        }
        // number of matching elements (before mutation)
        let matching = self.slots[s].model.iter().filter(|(k, e)| pred_eval(pred, **k, e.v, &old)).count();
        let take_n = take.map_or(usize::MAX, |t| (t as usize * (matching + 1)) >> 16);
        let mut log: Vec<Item> = Vec::with_capacity(n + 8);
        let mut out: Vec<Item> = Vec::with_capacity(n + 8);
        let mut errs: Vec<String> = Vec::with_capacity(4);
        let oldc = &old;
        let ((log, out, errs, n_explicit), obs) = self.observe(s, false, &[C09], move |m| {
            let logref = &mut log;
            let mut df = m.drain_filter(|k, v| {
                tick(K_CLOSURE, (k.k(), k.id()), (0, 0));
                let _s = Suspend::new();
                k.check("drain_filter");
                let cur = v.v();
                if logref.len() < logref.capacity() {
                    logref.push((k.k(), k.id(), cur, v.id()));
                }
                if let Some(d) = mutate {
                    v.set(cur.wrapping_add(d));
                }
                pred_eval(pred, k.k(), cur, oldc)
            });
            let mut taken = 0usize;
            while taken < take_n {
                let sh = df.size_hint();
                // the upper bound may not promise fewer items than are still to come
                ic!(errs, sh.0 <= matching.saturating_sub(taken) && sh.1.map_or(false, |u| u <= n && u >= matching.saturating_sub(taken)),
                    "drain_filter size_hint {:?} with {} elements, {} matching, {} yielded", sh, n, matching, taken);
                match df.next() {
                    Some((k, v)) => {
                        k.check("drain_filter item");
                        if out.len() < out.capacity() {
                            out.push((k.k(), k.id(), v.v(), v.id()));
                        }
                        taken += 1;
                        drop((k, v));
                    }
                    None => {
                        ic!(errs, df.next().is_none(), "drain_filter yielded an item after None");
                        break;
                    }
                }
            }
            if forget {
                std::mem::forget(df);
            } else {
                drop(df);
            }
            (log, out, errs, taken)
        })?;
        if !errs.is_empty() {
            return Err(self.mkfail(vec![C09], "iterator-protocol", errs.join("; "), String::new()));
        }
        // call log: at most once per element; exactly once unless forgotten
        {
            let mut seen = BTreeSet::new();
            for it in &log {
                if !seen.insert(it.0) {
                    fail!(self, [C09], "drain-filter-call-log", "predicate called twice for key {}", it.0);
                }
                match self.slots[s].model.get(&it.0) {
                    Some(e) if e.kid == it.1 && e.v == it.2 && e.vid == it.3 => {}
                    other => {
                        fail!(self, [C09], "drain-filter-call-log", "predicate saw {:?}, reference entry is {:?}", it, other);
                    }
                }
            }
            if !forget && log.len() != n {
                fail!(self, [C09], "drain-filter-call-log", "predicate called {} times for {} elements", log.len(), n);
            }
        }
        // yielded elements: each matches the predicate, carries the mutated value, once
        let visited: BTreeSet<u32> = log.iter().map(|x| x.0).collect();
        let mut yielded = BTreeSet::new();
        for it in &out {
            let e = match self.slots[s].model.get(&it.0) {
                Some(e) => *e,
                None => {
                    fail!(self, [C09], "drain-filter-yield", "yielded key {} which the reference does not have", it.0);
                }
            };
            let want_v = match mutate {
                Some(d) => e.v.wrapping_add(d),
                None => e.v,
            };
            if !pred_eval(pred, it.0, e.v, &old) || it.1 != e.kid || it.2 != want_v || it.3 != e.vid || !yielded.insert(it.0) {
                fail!(self, [C09], "drain-filter-yield", "yielded {:?}; reference entry {:?}, predicate says {}", it, e, pred_eval(pred, it.0, e.v, &old));
            }
        }
        if !forget && take.is_none() && out.len() != matching {
            fail!(self, [C09], "drain-filter-yield", "a fully consumed drain_filter yielded {} elements, {} match the predicate", out.len(), matching);
        }
        let _ = n_explicit;
        // model: visited elements carry the mutation; removed = yielded (+ all other matches if dropped)
        let mut removed_old = 0;
        {
            let model = &mut self.slots[s].model;
            let mut gone = Vec::new();
            for (k, e) in model.iter_mut() {
                let m = pred_eval(pred, *k, e.v, &old);
                let removed = if forget { yielded.contains(k) } else { m };
                if visited.contains(k) || !forget {
                    if let Some(d) = mutate {
                        e.v = e.v.wrapping_add(d);
                    }
                }
                if removed {
                    gone.push(*k);
                    if old.contains(k) {
                        removed_old += 1;
                    }
                }
            }
            for k in gone {
                model.remove(&k);
            }
        }
        if removed_old > 0 {
            self.nt(C06);
        }
        let mut f = Facts::of(Kind::Bulk);
        f.removed_from_old = removed_old;
        f.removed_lingering = false;
        self.judge(s, &obs, &f)?;
        self.after_op(s, &[C09], true)
    }
}

fn pred_eval(p: Pred, k: u32, v: u32, old: &BTreeSet<u32>) -> bool {
    match p {
        Pred::All => true,
        Pred::None => false,
        Pred::Mask(seed) => splitmix((k as u64) ^ ((seed as u64) << 32)) & 1 == 1,
        Pred::OnlyOld => old.contains(&k),
        Pred::OnlyMain => !old.contains(&k),
        Pred::ValueParity => v & 1 == 1,
        Pred::KeyMod(m, r) => {
            let m = (m as u32).max(1);
            k % m == (r as u32) % m
        }
        Pred::KeyBelow(n) => k < n,
    }
}
