//! C07: fault enumeration (stub until the interpreter is validated).
use crate::interp::Prop;
use crate::runner::WorkerCfg;
use serde_json::{json, Value};

pub fn worker(_cfg: &WorkerCfg) -> Value {
    json!({"prop": "C07", "evaluations": 0})
}
pub fn replay(_v: &Value, _prop: Prop) -> Value {
    json!({"failed": false})
}
