//! C07: fault enumeration. For a generated (state, operation) pair a panic is injected at every
//! individual invocation of every user callback the operation performs.

use crate::elems::*;
use crate::gen;
use crate::instr::*;
use crate::interp::*;
use crate::ops::*;
use crate::runner::{stats_json, WorkerCfg};
use proptest::prelude::*;
use proptest::test_runner::{Config, RngAlgorithm, RngSeed, TestCaseError, TestError, TestRng, TestRunner};
use serde::{Deserialize, Serialize};
use serde_json::{json, Value};
use std::collections::{BTreeMap, BTreeSet};
use std::panic::{catch_unwind, AssertUnwindSafe};

#[derive(Clone, Debug, Serialize, Deserialize)]
pub struct FCase {
    pub case: Case,
    /// scaled position of the target operation within case.ops
    pub target: u16,
    /// restrict to one fault (replay of a minimised failure)
    #[serde(default)]
    pub fault: Option<(usize, u32)>,
}

fn targetable(op: &Op) -> bool {
    matches!(
        op,
        Op::Insert { .. }
            | Op::Get { .. }
            | Op::GetMut { .. }
            | Op::GetKeyValue { .. }
            | Op::GetKeyValueMut { .. }
            | Op::ContainsKey { .. }
            | Op::Remove { .. }
            | Op::RemoveEntry { .. }
            | Op::Entry { .. }
            | Op::RawEntryMut { .. }
            | Op::RawEntry { .. }
            | Op::Retain { .. }
            | Op::DrainFilter { .. }
            | Op::Reserve { follow: false, .. }
            | Op::TryReserve { follow: false, .. }
            | Op::ShrinkToFit { .. }
            | Op::ShrinkTo { .. }
            | Op::Extend { .. }
            | Op::CloneTo { .. }
            | Op::CloneFrom { .. }
            | Op::EqCheck
            | Op::SetPoint { .. }
            | Op::SetRetain { .. }
            | Op::SetDrainFilter { .. }
            | Op::SetClone { .. }
            | Op::Z(_)
    )
}

/// which containers (bookkeeping indices 0..4, 4 = zero-sized) an op may modify
fn touched(op: &Op) -> Vec<usize> {
    match op {
        Op::CloneTo { dst, src } | Op::CloneFrom { dst, src } => vec![(*dst & 1) as usize, (*src & 1) as usize],
        Op::EqCheck => vec![0, 1],
        Op::SetPoint { s, .. } | Op::SetRetain { s, .. } | Op::SetDrainFilter { s, .. } => vec![2 + (*s & 1) as usize],
        Op::SetClone { dst, src, .. } => vec![2 + (*dst & 1) as usize, 2 + (*src & 1) as usize],
        Op::Z(_) => vec![4],
        Op::Insert { s, .. }
        | Op::Get { s, .. }
        | Op::GetMut { s, .. }
        | Op::GetKeyValue { s, .. }
        | Op::GetKeyValueMut { s, .. }
        | Op::ContainsKey { s, .. }
        | Op::Remove { s, .. }
        | Op::RemoveEntry { s, .. }
        | Op::Entry { s, .. }
        | Op::RawEntryMut { s, .. }
        | Op::RawEntry { s, .. }
        | Op::Retain { s, .. }
        | Op::DrainFilter { s, .. }
        | Op::Reserve { s, .. }
        | Op::TryReserve { s, .. }
        | Op::ShrinkToFit { s }
        | Op::ShrinkTo { s, .. }
        | Op::Extend { s, .. } => vec![(*s & 1) as usize],
        _ => vec![],
    }
}

fn read_only(op: &Op) -> bool {
    matches!(op, Op::Get { .. } | Op::GetKeyValue { .. } | Op::ContainsKey { .. } | Op::RawEntry { .. } | Op::EqCheck | Op::CloneTo { .. })
}

fn rehashing(op: &Op) -> bool {
    matches!(op, Op::Reserve { .. } | Op::TryReserve { .. } | Op::ShrinkToFit { .. } | Op::ShrinkTo { .. } | Op::Extend { .. })
}

type Snap = BTreeMap<u32, ME>;

struct Snaps {
    maps: [Snap; 2],
    sets: [BTreeMap<u32, u32>; 2],
}

fn snap<F: Fam>(ctx: &Ctx<F>) -> Snaps {
    Snaps {
        maps: [ctx.slots[0].model.clone(), ctx.slots[1].model.clone()],
        sets: [ctx.sets[0].model.clone(), ctx.sets[1].model.clone()],
    }
}

pub struct FaultFail {
    pub fail: Fail,
    pub kind: usize,
    pub n: u32,
}

pub struct FOutcome {
    pub stats: Stats,
    pub faults: u64,
    pub exhaustive: bool,
    pub nontrivial: bool,
    pub target_name: &'static str,
    pub counts: [u32; N_KINDS],
    pub fail: Option<FaultFail>,
    /// the case failed without any fault (owned by another property)
    pub foreign: Option<Fail>,
}

fn pick_target(fc: &FCase) -> Option<usize> {
    let n = fc.case.ops.len();
    if n == 0 {
        return None;
    }
    let start = (fc.target as usize * n) >> 16;
    (start..n).chain(0..start).find(|i| targetable(&fc.case.ops[*i]))
}

fn fault_indices(count: u32) -> (Vec<u32>, bool) {
    if count <= 64 {
        ((1..=count).collect(), true)
    } else {
        let mut v: Vec<u32> = (1..=24).collect();
        v.extend(count - 23..=count);
        let span = count - 48;
        for j in 0..16u32 {
            v.push(25 + (j * span) / 16);
        }
        v.sort_unstable();
        v.dedup();
        (v, false)
    }
}

pub fn run_fcase(fc: &FCase, big: bool) -> FOutcome {
    match fc.case.family {
        Family::P => run_fcase_f::<FamP>(fc, big),
        Family::T => run_fcase_f::<FamT>(fc, big),
    }
}

fn prefix<F: Fam>(case: &Case, t: usize, big: bool) -> Result<Ctx<F>, Fail> {
    fuse_off();
    let mut ctx: Ctx<F> = Ctx::new(case);
    ctx.big = big;
    for (i, op) in case.ops[..t].iter().enumerate() {
        if let Err(f) = ctx.step(i, op) {
            std::mem::forget(ctx);
            return Err(f);
        }
    }
    Ok(ctx)
}

pub fn run_fcase_f<F: Fam>(fc: &FCase, big: bool) -> FOutcome {
    let mut out = FOutcome {
        stats: Stats::default(),
        faults: 0,
        exhaustive: true,
        nontrivial: false,
        target_name: "none",
        counts: [0; N_KINDS],
        fail: None,
        foreign: None,
    };
    let t = match pick_target(fc) {
        Some(t) => t,
        None => return out,
    };
    let case = &fc.case;
    let op = &case.ops[t];
    out.target_name = op.name();
    // ---- count run (also yields the state the op would have produced)
    let mut ctx = match prefix::<F>(case, t, big) {
        Ok(c) => c,
        Err(f) => {
            out.foreign = Some(f);
            return out;
        }
    };
    for s in touched(op) {
        if s < 4 && ctx.st(s).l() > 0 {
            out.nontrivial = true;
        }
        if s == 4 && (ctx.z.maps[0].verif_state().old.map_or(false, |o| o.len > 0) || ctx.z.set.verif_state().old.map_or(false, |o| o.len > 0)) {
            out.nontrivial = true;
        }
    }
    fuse_count_mode();
    ctx.arm = Some((0, u32::MAX));
    let r = catch_unwind(AssertUnwindSafe(|| ctx.step(t, op)));
    let counts = fuse_counts();
    fuse_off();
    ctx.arm = None;
    out.counts = counts;
    // a forgotten drain_filter that is interrupted by a panic is *dropped* while unwinding, which
    // removes every remaining match: the state to compare with is that of the dropped variant
    let dropped_variant = match op {
        Op::DrainFilter { s, pred, mutate, take, forget: true } => Some(Op::DrainFilter { s: *s, pred: *pred, mutate: *mutate, take: *take, forget: false }),
        Op::SetDrainFilter { s, pred, take, forget: true } => Some(Op::SetDrainFilter { s: *s, pred: *pred, take: *take, forget: false }),
        _ => None,
    };
    if let (Some(op2), Ok(Ok(()))) = (&dropped_variant, &r) {
        let _ = ctx.finish();
        ctx = match prefix::<F>(case, t, big) {
            Ok(c) => c,
            Err(f) => {
                out.foreign = Some(f);
                return out;
            }
        };
        if let Err(f) = ctx.step(t, op2) {
            out.foreign = Some(f);
            std::mem::forget(ctx);
            return out;
        }
    }
    let post = match r {
        Ok(Ok(())) => snap(&ctx),
        Ok(Err(f)) => {
            out.foreign = Some(f);
            std::mem::forget(ctx);
            return out;
        }
        Err(_) => {
            std::mem::forget(ctx);
            return out;
        }
    };
    out.stats = ctx.stats.clone();
    // the same suffix without any fault: a failure here is not caused by a fault (it belongs to
    // whichever property owns it), so this (state, op) pair is not used
    {
        let end = (t + 1 + 10).min(case.ops.len());
        for (i, op2) in case.ops[t + 1..end].iter().enumerate() {
            if let Err(f) = ctx.step(t + 1 + i, op2) {
                out.foreign = Some(f);
                std::mem::forget(ctx);
                return out;
            }
        }
        if let Err(f) = ctx.finish() {
            out.foreign = Some(f);
            return out;
        }
    }

    // ---- one run per (kind, n)
    for kind in 0..N_KINDS {
        let (idx, exhaustive) = fault_indices(counts[kind]);
        out.exhaustive &= exhaustive;
        for n in idx {
            if let Some((fk, fnn)) = fc.fault {
                if fk != kind || fnn != n {
                    continue;
                }
            }
            out.faults += 1;
            if let Some(fail) = one_fault::<F>(case, t, kind, n, &post, big) {
                out.fail = Some(FaultFail { fail, kind, n });
                return out;
            }
        }
    }
    out
}

fn one_fault<F: Fam>(case: &Case, t: usize, kind: usize, n: u32, post: &Snaps, big: bool) -> Option<Fail> {
    let op = &case.ops[t];
    let mut ctx = match prefix::<F>(case, t, big) {
        Ok(c) => c,
        Err(_) => return None,
    };
    let pre = snap(&ctx);
    let zpre = (ctx.z.counts, ctx.z.set_count);
    fuse_arm(kind, n);
    ctx.arm = Some((kind, n));
    let prevq = panic_quiet(true);
    let r = catch_unwind(AssertUnwindSafe(|| ctx.step(t, op)));
    panic_quiet(prevq);
    let fired = fuse_fired();
    let culprit = fuse_culprit();
    fuse_off();
    ctx.arm = None;
    hlog_stop();
    let injected = match r {
        Ok(Ok(())) => false,
        Ok(Err(f)) => {
            // failed without the fault reaching us: not a fault outcome
            std::mem::forget(ctx);
            let _ = f;
            return None;
        }
        Err(payload) => {
            if !payload.is::<FuseMarker>() {
                let (msg, loc) = take_last_panic().unwrap_or_default();
                ctx.post_fault = true;
                let f = ctx.mkfail(vec![C07], "foreign-panic-during-fault", format!("a different panic escaped while a fault was armed: {} at {}", msg, norm_loc(&loc)), format!("{} @ {}", norm_msg(&msg), norm_loc(&loc)));
                std::mem::forget(ctx);
                return Some(f);
            }
            true
        }
    };
    if !injected && !fired {
        // fewer callbacks than in the count run: cannot happen for deterministic cases
        let _ = ctx.finish();
        return None;
    }
    ctx.post_fault = true;
    ctx.stats.faults += 1;
    let res = after_fault::<F>(&mut ctx, case, t, kind, culprit, &pre, post, zpre, injected);
    match res {
        Err(f) => {
            std::mem::forget(ctx);
            Some(f)
        }
        Ok(()) => {
            // suffix: later operations behave normally
            let end = (t + 1 + 10).min(case.ops.len());
            for (i, op2) in case.ops[t + 1..end].iter().enumerate() {
                if let Err(f) = ctx.step(t + 1 + i, op2) {
                    std::mem::forget(ctx);
                    return Some(f);
                }
            }
            match ctx.finish() {
                Ok(_) => None,
                Err(f) => Some(f),
            }
        }
    }
}

fn after_fault<F: Fam>(
    ctx: &mut Ctx<F>,
    case: &Case,
    t: usize,
    kind: usize,
    culprit: (u32, u32, u32, u32),
    pre: &Snaps,
    post: &Snaps,
    zpre: ([usize; 2], usize),
    injected: bool,
) -> Result<(), Fail> {
    let op = &case.ops[t];
    ctx.op_index = t;
    ctx.op_name = op.name();
    let kname = KIND_NAMES[kind];
    // nothing dropped twice, nothing used after drop
    ctx.ledger_check(&[])?;
    let culprits: BTreeSet<u32> = [culprit.0, culprit.2].into_iter().collect();
    let clone_from_dst = match op {
        Op::CloneFrom { dst, .. } => Some((*dst & 1) as usize),
        Op::SetClone { dst, from: true, .. } => Some(2 + (*dst & 1) as usize),
        _ => None,
    };
    for s in 0..4usize {
        let st = ctx.st(s);
        if let Some(o) = st.hook.old {
            if o.cursor_remaining != o.len {
                fail!(ctx, [C07], "cursor-desync", "after a panic in {} #{}: cached cursor believes {} elements remain, old table holds {}", kname, culprit.1, o.cursor_remaining, o.len);
            }
        }
        if st.cap < st.len {
            fail!(ctx, [C07], "capacity-below-len", "after a panic in {}: capacity() = {} < len() = {}", kname, st.cap, st.len);
        }
        if st.len != st.hook.main_len + st.l() {
            fail!(ctx, [C07], "len-split", "after a panic in {}: len() = {} but tables hold {} + {}", kname, st.len, st.hook.main_len, st.l());
        }
        let is_touched = touched(op).contains(&s);
        if s < 2 {
            let actual = ctx.actual_contents(s);
            if actual.len() != st.len {
                fail!(ctx, [C07], "len-vs-iter", "after a panic in {}: len() = {} but iter() yields {}", kname, st.len, actual.len());
            }
            let mut seen = BTreeSet::new();
            for (k, _) in &actual {
                if !seen.insert(*k) {
                    fail!(ctx, [C07], "duplicate-key", "after a panic in {}: key {} is stored twice", kname, k);
                }
            }
            ctx.ledger_check(&[])?;
            let amap: Snap = actual.iter().cloned().collect();
            if Some(s) == clone_from_dst {
                // unspecified contents, only memory safety: empty it and go on
                let (_, _obs) = ctx.observe(s, false, &[], |m| m.clear())?;
                ctx.slots[s].model.clear();
                let live = (ctx.st(s).hook.main_buckets > 1) as i64;
                let vh = ctx.meta[s].vh;
                ctx.meta[s] = Meta::new(vh, live);
                // the destination may have adopted the source's hasher or kept its own: find out
                continue;
            }
            if !is_touched || read_only(op) {
                if amap != pre.maps[s] {
                    fail!(ctx, [C07], "changed-by-panic", "after a panic in {} during {}: map {} changed although the operation {} it", kname, op.name(), s, if is_touched { "only reads" } else { "does not touch" });
                }
            } else {
                for (k, e) in &amap {
                    let a = pre.maps[s].get(k);
                    let b = post.maps[s].get(k);
                    if a.is_none() && b.is_none() && legit_for(*k).is_empty() {
                        fail!(ctx, [C07], "illegitimate-element", "after a panic in {}: key {} is in the map but was neither there before nor would the operation have added it", kname, k);
                    }
                    let mid = legit_for(*k);
                    let ok_kid = a.map_or(false, |x| x.kid == e.kid) || b.map_or(false, |x| x.kid == e.kid) || mid.iter().any(|x| x.kid == e.kid);
                    let ok_vid = a.map_or(false, |x| x.vid == e.vid) || b.map_or(false, |x| x.vid == e.vid) || mid.iter().any(|x| x.vid == e.vid);
                    let ok_v = a.map_or(false, |x| x.v == e.v) || b.map_or(false, |x| x.v == e.v) || mid.iter().any(|x| x.v == e.v);
                    if !(ok_kid && ok_vid && ok_v) {
                        fail!(ctx, [C07], "illegitimate-value", "after a panic in {}: key {} holds {:?}; before {:?}, completed operation {:?}", kname, k, e, a, b);
                    }
                }
                let any_loss_ok = kind == K_HASH && rehashing(op);
                if !any_loss_ok {
                    for (k, _) in pre.maps[s].iter() {
                        if post.maps[s].contains_key(k) && !amap.contains_key(k) && !culprits.contains(k) && !legit_absent_ok(*k) {
                            fail!(ctx, [C07], "lost-element", "after a panic in {} (handed key {} / {}): key {} was lost although it was not the element handed to the panicking callback", kname, culprit.0, culprit.2, k);
                        }
                    }
                }
            }
            // every element is found by get, with the same value object
            ctx.slots[s].model = amap;
            let live = (st.hook.main_buckets > 1) as i64 + st.hook.old.is_some() as i64;
            let vh = ctx.meta[s].vh;
            ctx.meta[s] = Meta::new(vh, live);
            ctx.meta[s].linger_ok = st.hook.old.map_or(false, |o| o.len == 0);
            ctx.since_full[s] = 0;
            ctx.full_check(s, &[C07])?;
        } else {
            let si = s - 2;
            let mut actual: Vec<(u32, u32)> = ctx.sets[si].set.iter().map(|k| (k.k(), k.id())).collect();
            actual.sort_unstable();
            if actual.len() != st.len || actual.windows(2).any(|w| w[0].0 == w[1].0) {
                fail!(ctx, [C07], "len-vs-iter", "after a panic in {}: set len() = {}, iter() yields {} (duplicates?)", kname, st.len, actual.len());
            }
            ctx.ledger_check(&[])?;
            let amap: BTreeMap<u32, u32> = actual.into_iter().collect();
            if Some(s) == clone_from_dst {
                let (_, _obs) = ctx.observe_set(si, &[], |m| m.clear())?;
                ctx.sets[si].model.clear();
                let live = (ctx.st(s).hook.main_buckets > 1) as i64;
                let vh = ctx.meta[s].vh;
                ctx.meta[s] = Meta::new(vh, live);
                continue;
            }
            if !is_touched {
                if amap != pre.sets[si] {
                    fail!(ctx, [C07], "changed-by-panic", "after a panic in {} during {}: untouched set {} changed", kname, op.name(), si);
                }
            } else {
                for (k, id) in &amap {
                    let a = pre.sets[si].get(k);
                    let b = post.sets[si].get(k);
                    if a != Some(id) && b != Some(id) {
                        fail!(ctx, [C07], "illegitimate-element", "after a panic in {}: set element {} (id {}) is neither the one from before ({:?}) nor the one the operation would have stored ({:?})", kname, k, id, a, b);
                    }
                    if a.is_none() && b.is_none() {
                        fail!(ctx, [C07], "illegitimate-element", "after a panic in {}: set element {} appeared from nowhere", kname, k);
                    }
                }
                for (k, _) in pre.sets[si].iter() {
                    if post.sets[si].contains_key(k) && !amap.contains_key(k) && !culprits.contains(k) {
                        fail!(ctx, [C07], "lost-element", "after a panic in {}: set element {} was lost although it was not handed to the panicking callback", kname, k);
                    }
                }
            }
            ctx.sets[si].model = amap;
            let live = (st.hook.main_buckets > 1) as i64 + st.hook.old.is_some() as i64;
            let vh = ctx.meta[s].vh;
            ctx.meta[s] = Meta::new(vh, live);
            ctx.meta[s].linger_ok = st.hook.old.map_or(false, |o| o.len == 0);
            ctx.full_check_set(si, &[C07])?;
        }
    }
    // zero-sized collections: re-synchronise the counts, then the usual consistency check
    {
        let lens = [ctx.z.maps[0].len(), ctx.z.maps[1].len()];
        let sl = ctx.z.set.len();
        if matches!(op, Op::Z(_)) {
            // at most one element may be lost (the one handed to the callback), none invented
            let before = zpre.0[0] + zpre.0[1] + zpre.1;
            let after = lens[0] + lens[1] + sl;
            if !matches!(op, Op::Z(crate::zst::ZOp::CloneTo) | Op::Z(crate::zst::ZOp::CloneFrom) | Op::Z(crate::zst::ZOp::Dup(_)) | Op::Z(crate::zst::ZOp::Trigger) | Op::Z(crate::zst::ZOp::Retain(..)) | Op::Z(crate::zst::ZOp::DrainFilter(..)) | Op::Z(crate::zst::ZOp::Reserve(_)) | Op::Z(crate::zst::ZOp::TryReserve(_)) | Op::Z(crate::zst::ZOp::ShrinkToFit) | Op::Z(crate::zst::ZOp::ShrinkTo(_)) | Op::Z(crate::zst::ZOp::SetReserve(_)) | Op::Z(crate::zst::ZOp::SetShrink))
                && (after + 1 < before || after > before + 1)
            {
                fail!(ctx, [C07], "lost-element", "after a panic in {}: zero-sized collections went from {} to {} elements", kname, before, after);
            }
        } else if lens != zpre.0 || sl != zpre.1 {
            fail!(ctx, [C07], "changed-by-panic", "after a panic in {}: untouched zero-sized collections changed", kname);
        }
        ctx.z.counts = lens;
        ctx.z.set_count = sl;
        // objects dropped or leaked by the interrupted call are not accounted for any more
        ctx.z.no_leak_check = true;
        if ctx.z.used {
            ctx.do_z(&crate::zst::ZOp::Get)?;
        }
    }
    let _ = injected;
    Ok(())
}

// ---------------------------------------------------------------------------------------------
// worker
// ---------------------------------------------------------------------------------------------

pub fn fcase_strategy(thorough: bool) -> BoxedStrategy<FCase> {
    let mut p = gen::profile(C07, thorough);
    // user-code-heavy operations
    p.w.retain = 8;
    p.w.drain_filter = 8;
    p.w.entry = 14;
    p.w.rawmut = 10;
    p.w.reserve = 6;
    p.w.shrink = 5;
    p.w.clone = 8;
    p.w.extend = 5;
    p.w.eq = 3;
    p.w.set_point = 6;
    p.w.set_retain = 2;
    p.w.set_drain_filter = 2;
    p.w.set_clone = 2;
    p.w.set_misc = 2;
    p.w.z = 8;
    p.w.insert_many = 1;
    p.w.remove_many = 0;
    p.w.remove_all = 0;
    p.w.churn = 0;
    p.w.fill = 1;
    p.w.probe = 0;
    p.w.from_iter = 0;
    p.w.with_cap = 0;
    (gen::case_strategy(&p), 20000u16..=65535).prop_map(|(case, target)| FCase { case, target, fault: None }).boxed()
}

pub fn worker(cfg: &WorkerCfg) -> Value {
    let strat = fcase_strategy(cfg.thorough);
    let mut seed_bytes = [0u8; 32];
    let s = splitmix(cfg.seed ^ 0xFA07_0000);
    for i in 0..4 {
        seed_bytes[i * 8..i * 8 + 8].copy_from_slice(&splitmix(s.wrapping_add(i as u64)).to_le_bytes());
    }
    let config = Config { cases: cfg.cases, failure_persistence: None, max_shrink_iters: 400, rng_seed: RngSeed::Fixed(s), ..Config::default() };
    let rng = TestRng::from_seed(RngAlgorithm::ChaCha, &seed_bytes);
    let mut runner = TestRunner::new_with_rng(config, rng);
    struct Acc {
        total: Stats,
        cases: u64,
        faults: u64,
        exhaustive_cases: u64,
        nontrivial: BTreeSet<u64>,
        samples: Vec<Value>,
        by_target: BTreeMap<&'static str, u64>,
        by_kind: [u64; N_KINDS],
        foreign: Vec<String>,
        foreign_n: u64,
        failing: bool,
        known_hits: BTreeSet<String>,
    }
    let acc = std::cell::RefCell::new(Acc {
        total: Stats::default(),
        cases: 0,
        faults: 0,
        exhaustive_cases: 0,
        nontrivial: BTreeSet::new(),
        samples: Vec::new(),
        by_target: BTreeMap::new(),
        by_kind: [0; N_KINDS],
        foreign: Vec::new(),
        foreign_n: 0,
        failing: false,
        known_hits: BTreeSet::new(),
    });
    let big = cfg.thorough;
    let known = cfg.known.clone();
    let current = cfg.current.clone();
    let wd = cfg.hang_marker.clone().map(|m| crate::runner::Watchdog::start(m, crate::runner::case_time_limit(cfg.thorough) * 4));
    let result = runner.run(&strat, |fc| {
        if let Some(w) = &wd {
            w.begin(|| serde_json::to_string(&fc).unwrap_or_default());
        }
        if let Some(p) = &current {
            let _ = std::fs::write(p, serde_json::to_string(&fc).unwrap_or_default());
        }
        let out = run_fcase(&fc, big);
        let mut a = acc.borrow_mut();
        if !a.failing {
            a.cases += 1;
            a.faults += out.faults;
            a.total.merge(&out.stats);
            a.total.faults += out.faults;
            if out.exhaustive {
                a.exhaustive_cases += 1;
            }
            *a.by_target.entry(out.target_name).or_insert(0) += out.faults;
            for k in 0..N_KINDS {
                a.by_kind[k] += out.counts[k] as u64;
            }
            if out.nontrivial && out.faults > 0 {
                a.nontrivial.insert(fc.case.hash64() ^ fc.target as u64);
            }
            if a.samples.len() < 3 && out.faults > 0 {
                a.samples.push(json!({"target_op": out.target_name, "callbacks_counted": {"hash": out.counts[0], "eq": out.counts[1], "clone": out.counts[2], "closure": out.counts[3], "value_eq": out.counts[4]}, "faults_injected": out.faults, "history": fc.case.render(10)}));
            }
            if let Some(f) = &out.foreign {
                a.foreign_n += 1;
                if a.foreign.len() < 5 {
                    a.foreign.push(f.describe());
                }
            }
        }
        if let Some(ff) = out.fail {
            if known.iter().any(|k| *k == ff.fail.signature()) {
                if !a.failing {
                    a.total.excluded_known += 1;
                    a.known_hits.insert(ff.fail.signature());
                }
                return Ok(());
            }
            a.failing = true;
            return Err(TestCaseError::fail(ff.fail.describe()));
        }
        Ok(())
    });
    let a = acc.into_inner();
    let mut violation = Value::Null;
    if let Err(e) = result {
        match e {
            TestError::Fail(reason, fc) => {
                let out = run_fcase(&fc, big);
                let (desc, sig, fault) = match &out.fail {
                    Some(ff) => (format!("fault: panic in {} invocation #{} of the {} at op#{}: {}", KIND_NAMES[ff.kind], ff.n, out.target_name, pick_target(&fc).unwrap_or(0), ff.fail.describe()), ff.fail.signature(), Some((ff.kind, ff.n))),
                    None => (reason.message().to_string(), String::new(), None),
                };
                let mut fc2 = fc.clone();
                fc2.fault = fault;
                violation = json!({
                    "case": serde_json::to_value(&fc2.case).unwrap(),
                    "target": fc2.target,
                    "fault": fc2.fault,
                    "describe": desc,
                    "signature": sig,
                    "rendered": fc.case.render(60),
                });
            }
            TestError::Abort(reason) => violation = json!({"abort": reason.message().to_string()}),
        }
    }
    let mut st = stats_json(&a.total);
    st["faults_by_target_op"] = json!(a.by_target);
    st["callbacks_counted_by_kind"] = json!({"hash": a.by_kind[0], "eq": a.by_kind[1], "clone": a.by_kind[2], "closure": a.by_kind[3], "value_eq": a.by_kind[4]});
    st["state_op_pairs"] = json!(a.cases);
    st["state_op_pairs_enumerated_exhaustively"] = json!(a.exhaustive_cases);
    json!({
        "prop": "C07",
        "evaluations": a.faults,
        "nontrivial_hashes": a.nontrivial.iter().map(|h| format!("{:016x}", h)).collect::<Vec<_>>(),
        "samples": a.samples,
        "first_nontrivial": Value::Null,
        "stats": st,
        "foreign_failures": a.foreign_n,
        "foreign_examples": a.foreign,
        "known_hits": a.known_hits.into_iter().collect::<Vec<_>>(),
        "violation": violation,
    })
}

pub fn replay(v: &Value, prop: Prop) -> Value {
    let case: Case = match serde_json::from_value(v.get("case").cloned().unwrap_or(Value::Null)) {
        Ok(c) => c,
        Err(e) => return json!({"failed": false, "error": e.to_string()}),
    };
    let target = v.get("target").and_then(|t| t.as_u64()).unwrap_or(0) as u16;
    let fault = v.get("fault").and_then(|f| serde_json::from_value::<Option<(usize, u32)>>(f.clone()).ok()).flatten();
    let fc = FCase { case, target, fault };
    let out = run_fcase(&fc, false);
    match out.fail {
        Some(ff) => json!({"failed": true, "owns": ff.fail.has(prop), "tags": ff.fail.tags.iter().map(|t| t.name()).collect::<Vec<_>>(), "describe": format!("panic in {} invocation #{} of {}: {}", KIND_NAMES[ff.kind], ff.n, out.target_name, ff.fail.describe()), "signature": ff.fail.signature()}),
        None => json!({"failed": false, "faults": out.faults, "target": out.target_name}),
    }
}
