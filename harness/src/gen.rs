//! proptest strategies: one weighted operation language, one profile per property.

use crate::elems::{HMode, VH};
use crate::interp::Prop;
use crate::interp::Prop::*;
use crate::ops::*;
use proptest::prelude::*;
use proptest::strategy::Union;

#[derive(Clone, Debug)]
pub struct Profile {
    pub max_ops: usize,
    pub many_max: u32,
    pub medium_max: u16,
    pub huge: bool,
    /// thorough tier: 0.3% of the cases start from a map of 60000..140000 elements
    pub big_cases: bool,
    /// 0 = plain only, 1 = tracked only, 2 = either
    pub family: u8,
    pub hash_modes: [u32; 4], // Good, Identity, Low, Collide
    pub w: W,
    /// percentage of cases made almost entirely of operations on the zero-sized-element collections
    /// (sprinkled among other operations, the few-step states they need are rarely reached)
    pub z_heavy_pct: u32,
    /// weight of the serde / rayon operations among the zero-sized-collection operations
    pub z_feature_w: (u32, u32),
}

#[derive(Clone, Debug, Default)]
pub struct W {
    pub insert: u32,
    pub insert_many: u32,
    pub lookup: u32,
    pub remove: u32,
    pub remove_many: u32,
    pub remove_all: u32,
    pub remove_old: u32,
    pub tight_shrink: u32,
    pub linger_full: u32,
    pub entry: u32,
    pub rawmut: u32,
    pub raw: u32,
    pub iter: u32,
    pub iter_mut: u32,
    pub drain: u32,
    pub into_iter: u32,
    pub retain: u32,
    pub drain_filter: u32,
    pub clear: u32,
    pub reserve: u32,
    pub shrink: u32,
    pub extend: u32,
    pub from_iter: u32,
    pub with_cap: u32,
    pub clone: u32,
    pub eq: u32,
    pub debug: u32,
    pub fill: u32,
    pub trigger: u32,
    pub advance: u32,
    pub churn: u32,
    pub probe: u32,
    pub par: u32,
    pub serde: u32,
    pub set_point: u32,
    pub set_many: u32,
    pub set_retain: u32,
    pub set_drain_filter: u32,
    pub set_iter: u32,
    pub set_extend: u32,
    pub set_misc: u32,
    pub set_clone: u32,
    pub set_algebra: u32,
    pub set_par: u32,
    pub set_serde: u32,
    pub z: u32,
}

fn base_w() -> W {
    W {
        insert: 10,
        insert_many: 3,
        lookup: 10,
        remove: 8,
        remove_many: 2,
        remove_all: 1,
        remove_old: 3,
        tight_shrink: 2,
        linger_full: 2,
        entry: 10,
        rawmut: 8,
        raw: 3,
        iter: 1,
        iter_mut: 3,
        drain: 1,
        into_iter: 1,
        retain: 3,
        drain_filter: 3,
        clear: 1,
        reserve: 3,
        shrink: 3,
        extend: 3,
        from_iter: 1,
        with_cap: 1,
        clone: 3,
        eq: 0,
        debug: 0,
        fill: 2,
        trigger: 9,
        advance: 4,
        churn: 1,
        probe: 1,
        ..W::default()
    }
}

pub fn profile(prop: Prop, thorough: bool) -> Profile {
    let mut p = Profile {
        max_ops: if thorough { 120 } else { 56 },
        many_max: if thorough { 600 } else { 260 },
        medium_max: if thorough { 8192 } else { 1024 },
        huge: false,
        big_cases: thorough && matches!(prop, C01 | C03 | C04 | C05 | C06 | C08 | C09 | C11 | C12),
        family: 2,
        hash_modes: [5, 2, 2, 1],
        w: base_w(),
        z_heavy_pct: match prop {
            C01 | C04 | C11 | C13 => 5,
            C05 | C09 => 10,
            C06 | C08 | C10 | C12 | C17 => 8,
            C07 => 15,
            C15 | C16 => 6,
            C02 | C03 => 5,
            _ => 0,
        },
        z_feature_w: match prop {
            C16 => (30, 1),
            C15 => (1, 30),
            _ => (1, 1),
        },
    };
    match prop {
        C01 => {
            p.w.z = 12;
            p.w.remove_old = 6;
        }
        C02 => {
            // long histories, every call measured; big maps come from InsertMany
            p.many_max = if thorough { 40_000 } else { 5_000 };
            p.hash_modes = [6, 2, 1, 0];
            p.w.insert_many = 6;
            p.w.remove_many = 3;
            p.w.churn = 2;
            // states in which an insertion could fall back to all-at-once work: an old table emptied
            // by retain / replace_entry_with next to an exactly full main table
            p.w.retain = 5;
            p.w.remove_old = 5;
            p.w.tight_shrink = 5;
            p.w.linger_full = 5;
            p.w.shrink = 4;
            p.w.entry = 12;
            p.w.rawmut = 10;
            p.w.clone = 1;
            p.w.with_cap = 0;
            p.w.from_iter = 0;
            p.w.set_point = 6;
            p.w.set_many = 2;
            p.w.set_misc = 1;
            p.max_ops = if thorough { 90 } else { 48 };
        }
        C03 => {
            p.w.trigger = 14;
            p.w.remove_old = 6;
            p.w.insert = 14;
            p.w.remove = 12;
            p.w.retain = 6;
            p.w.drain_filter = 6;
            p.w.entry = 12;
            p.w.rawmut = 8;
            p.w.clear = 2;
            p.w.drain = 2;
            p.w.reserve = 4;
            p.w.clone = 1;
            p.w.set_point = 4;
            p.w.set_misc = 2;
            p.w.set_retain = 1;
        }
        C04 => {
            p.hash_modes = [4, 3, 2, 1];
            p.w.probe = 10;
            p.w.tight_shrink = 8;
            p.w.shrink = 12;
            p.w.reserve = 10;
            p.w.churn = 5;
            p.w.fill = 6;
            p.w.trigger = 12;
            p.w.retain = 6;
            p.w.clone = 8;
            p.w.remove_many = 5;
            p.w.remove_all = 4;
            p.w.clear = 1;
            p.w.iter = 0;
            p.w.iter_mut = 0;
            p.w.lookup = 3;
        }
        C05 => {
            // huge arguments too: an overflow path that ends in unreachable_unchecked is UB
            p.huge = true;
            p.w.reserve = 5;
            p.w.retain = 7;
            p.w.drain_filter = 7;
            p.w.entry = 14;
            p.w.rawmut = 12;
            p.w.remove = 10;
            p.w.trigger = 12;
            p.w.iter = 2;
            p.w.set_point = 6;
            p.w.set_retain = 2;
            p.w.set_drain_filter = 2;
            p.w.set_misc = 3;
            p.w.set_iter = 2;
            p.w.set_clone = 1;
            p.w.z = 16;
        }
        C06 => {
            p.family = 1;
            p.w.drain = 4;
            p.w.into_iter = 4;
            p.w.clear = 3;
            p.w.clone = 6;
            p.w.retain = 5;
            p.w.drain_filter = 5;
            p.w.from_iter = 2;
            p.w.with_cap = 2;
            p.w.set_point = 5;
            p.w.set_iter = 3;
            p.w.set_misc = 2;
            p.w.set_clone = 2;
            p.w.set_retain = 1;
            p.w.set_drain_filter = 1;
            p.w.z = 6;
        }
        C07 => {
            p.max_ops = if thorough { 40 } else { 28 };
            p.many_max = 120;
            // both families: element types without drop glue take different paths in places
            p.family = 2;
            p.w.par = 0;
        }
        C08 => {
            p.w.iter = 14;
            p.w.iter_mut = 8;
            p.w.drain = 7;
            p.w.into_iter = 6;
            p.w.set_iter = 8;
            p.w.set_point = 6;
            p.w.set_misc = 3;
            p.w.lookup = 3;
        }
        C09 => {
            p.w.retain = 14;
            p.w.drain_filter = 16;
            p.w.set_retain = 5;
            p.w.set_drain_filter = 6;
            p.w.set_point = 6;
            p.w.set_misc = 3;
            p.w.lookup = 3;
        }
        C10 => {
            p.huge = true;
            p.w.reserve = 20;
            p.w.shrink = 14;
            p.w.with_cap = 6;
            p.w.lookup = 3;
            p.w.set_misc = 4;
            p.w.set_point = 3;
        }
        C11 => {
            p.w.clone = 22;
            p.w.with_cap = 4;
            p.w.churn = 4;
            p.w.remove_many = 4;
            p.w.remove_all = 5;
            p.w.eq = 3;
            p.w.set_clone = 5;
            p.w.set_point = 5;
            p.w.set_misc = 2;
        }
        C12 => {
            p.w.entry = 30;
            p.w.rawmut = 24;
            p.w.raw = 6;
            p.w.fill = 8;
            p.w.trigger = 12;
            p.w.lookup = 4;
        }
        C13 => {
            p.w = W {
                set_point: 30,
                set_many: 6,
                set_retain: 4,
                set_drain_filter: 4,
                set_iter: 5,
                set_extend: 4,
                set_misc: 10,
                set_clone: 3,
                set_algebra: 12,
                ..W::default()
            };
        }
        C14 => {
            p.w.eq = 10;
            p.w.debug = 6;
            p.w.clone = 8;
        }
        C15 => {
            p.family = 0;
            p.w.par = 12;
            p.w.set_par = 8;
            p.w.set_point = 8;
            p.w.set_many = 3;
            p.w.set_misc = 5;
            p.w.set_clone = 2;
            p.w.clone = 5;
            p.max_ops = if thorough { 60 } else { 36 };
        }
        C16 => {
            p.w.serde = 12;
            p.w.set_serde = 10;
            p.w.set_point = 8;
            p.w.set_many = 3;
            p.w.set_misc = 5;
            p.max_ops = if thorough { 60 } else { 36 };
        }
        C17 => {
            p.huge = true;
            p.w.reserve = 10;
            p.w.entry = 14;
            p.w.rawmut = 10;
            p.w.shrink = 6;
            p.w.clone = 6;
            p.w.churn = 3;
            p.w.remove_many = 3;
        }
    }
    p
}

pub fn keysel() -> BoxedStrategy<KeySel> {
    prop_oneof![
        3 => Just(KeySel::Fresh),
        3 => any::<u16>().prop_map(KeySel::Existing),
        4 => any::<u16>().prop_map(KeySel::InOld),
        2 => any::<u16>().prop_map(KeySel::InMain),
        2 => (0u32..4096).prop_map(KeySel::Any),
        1 => (0u32..4096).prop_map(KeySel::Absent),
        3 => (0u8..20).prop_map(KeySel::NextMoved),
    ]
    .boxed()
}

pub fn caparg(p: &Profile) -> BoxedStrategy<CapArg> {
    let mm = p.medium_max;
    let mut v: Vec<(u32, BoxedStrategy<CapArg>)> = vec![
        (3, (0u8..40).prop_map(CapArg::Small).boxed()),
        (4, (-3i8..=3).prop_map(CapArg::AroundFree).boxed()),
        (4, (-3i8..=3).prop_map(CapArg::AroundLen).boxed()),
        (4, (-3i8..=3).prop_map(CapArg::AroundHeadroom).boxed()),
        (2, (0u16..=mm).prop_map(CapArg::Medium).boxed()),
    ];
    if p.huge {
        v.push((5, any::<u16>().prop_map(CapArg::Huge).boxed()));
    }
    Union::new_weighted(v).boxed()
}

pub fn pred() -> BoxedStrategy<Pred> {
    prop_oneof![
        2 => Just(Pred::All),
        2 => Just(Pred::None),
        4 => any::<u32>().prop_map(Pred::Mask),
        4 => Just(Pred::OnlyOld),
        3 => Just(Pred::OnlyMain),
        2 => Just(Pred::ValueParity),
        2 => (2u8..6, 0u8..6).prop_map(|(m, r)| Pred::KeyMod(m, r)),
    ]
    .boxed()
}

fn val() -> BoxedStrategy<u32> {
    (0u32..1000).boxed()
}

fn optw() -> BoxedStrategy<Option<u32>> {
    prop_oneof![1 => Just(None), 2 => (0u32..1000).prop_map(Some)].boxed()
}

fn estep() -> BoxedStrategy<EStep> {
    prop_oneof![
        3 => (1u32..50).prop_map(EStep::AndModify),
        3 => (1u32..50).prop_map(|d| EStep::AndReplace(Some(d))),
        4 => Just(EStep::AndReplace(None)),
        1 => Just(EStep::Key),
    ]
    .boxed()
}

fn ostep() -> BoxedStrategy<OStep> {
    prop_oneof![
        Just(OStep::Key),
        Just(OStep::Get),
        (1u32..50).prop_map(OStep::GetMut),
        val().prop_map(OStep::Insert),
        Just(OStep::GetKeyValue),
        (1u32..50).prop_map(OStep::GetKeyValueMut),
        Just(OStep::InsertKey),
    ]
    .boxed()
}

fn tail() -> BoxedStrategy<Tail> {
    prop_oneof![
        1 => Just(Tail::Drop),
        3 => val().prop_map(Tail::RemoveOrInsert),
        3 => val().prop_map(Tail::WriteOrInsert),
        1 => Just(Tail::Peek),
    ]
    .boxed()
}

fn oend() -> BoxedStrategy<OEnd> {
    prop_oneof![
        1 => Just(OEnd::Drop),
        3 => Just(OEnd::Remove),
        3 => Just(OEnd::RemoveEntry),
        2 => val().prop_map(OEnd::IntoMut),
        2 => val().prop_map(OEnd::ReplaceEntry),
        2 => Just(OEnd::ReplaceKey),
        3 => ((1u32..50), tail()).prop_map(|(d, t)| OEnd::ReplaceWith(Some(d), t)),
        4 => tail().prop_map(|t| OEnd::ReplaceWith(None, t)),
        1 => Just(OEnd::IntoKey),
        1 => val().prop_map(OEnd::IntoKeyValue),
    ]
    .boxed()
}

fn vend() -> BoxedStrategy<VEnd> {
    prop_oneof![
        1 => Just(VEnd::Drop),
        1 => Just(VEnd::Key),
        1 => Just(VEnd::IntoKey),
        4 => (val(), optw()).prop_map(|(v, w)| VEnd::Insert(v, w)),
        2 => (val(), optw()).prop_map(|(v, w)| VEnd::InsertHashedNocheck(v, w)),
        2 => (val(), optw()).prop_map(|(v, w)| VEnd::InsertWithHasher(v, w)),
    ]
    .boxed()
}

fn eend() -> BoxedStrategy<EEnd> {
    prop_oneof![
        1 => Just(EEnd::Drop),
        3 => (val(), ostep(), oend()).prop_map(|(v, o, e)| EEnd::Insert(v, o, e)),
        3 => (val(), optw()).prop_map(|(v, w)| EEnd::OrInsert(v, w)),
        2 => (val(), optw()).prop_map(|(v, w)| EEnd::OrInsertWith(v, w)),
        2 => optw().prop_map(EEnd::OrInsertWithKey),
        1 => optw().prop_map(EEnd::OrDefault),
        8 => (ostep(), oend(), vend()).prop_map(|(o, e, v)| EEnd::Match(o, e, v)),
    ]
    .boxed()
}

pub fn chain() -> BoxedStrategy<Chain> {
    (proptest::collection::vec(estep(), 0..=2), eend())
        .prop_map(|(steps, end)| Chain { steps, end })
        .boxed()
}

fn rawhow() -> BoxedStrategy<RawHow> {
    prop_oneof![Just(RawHow::FromKey), Just(RawHow::FromKeyHashedNocheck), Just(RawHow::FromHash)].boxed()
}

fn slot() -> BoxedStrategy<u8> {
    prop_oneof![3 => Just(0u8), 1 => Just(1u8)].boxed()
}

fn take() -> BoxedStrategy<Option<u16>> {
    prop_oneof![2 => Just(None), 3 => any::<u16>().prop_map(Some)].boxed()
}

fn items(n: usize) -> BoxedStrategy<Vec<(KeySel, u32)>> {
    proptest::collection::vec((keysel(), val()), 0..n).boxed()
}

pub fn op_strategy(p: &Profile) -> BoxedStrategy<Op> {
    let w = &p.w;
    let many = p.many_max;
    let mut v: Vec<(u32, BoxedStrategy<Op>)> = Vec::new();
    let mut add = |wt: u32, s: BoxedStrategy<Op>| {
        if wt > 0 {
            v.push((wt, s));
        }
    };
    add(w.insert, (slot(), keysel(), val()).prop_map(|(s, k, v)| Op::Insert { s, k, v }).boxed());
    add(w.insert_many, (slot(), 1u32..=many, val()).prop_map(|(s, n, v)| Op::InsertMany { s, n, v }).boxed());
    add(
        w.lookup,
        prop_oneof![
            (slot(), keysel()).prop_map(|(s, k)| Op::Get { s, k }),
            (slot(), keysel(), optw()).prop_map(|(s, k, w)| Op::GetMut { s, k, w }),
            (slot(), keysel()).prop_map(|(s, k)| Op::GetKeyValue { s, k }),
            (slot(), keysel(), optw()).prop_map(|(s, k, w)| Op::GetKeyValueMut { s, k, w }),
            (slot(), keysel()).prop_map(|(s, k)| Op::ContainsKey { s, k }),
            (slot(), keysel()).prop_map(|(s, k)| Op::Index { s, k }),
        ]
        .boxed(),
    );
    add(
        w.remove,
        prop_oneof![
            (slot(), keysel()).prop_map(|(s, k)| Op::Remove { s, k }),
            (slot(), keysel()).prop_map(|(s, k)| Op::RemoveEntry { s, k }),
        ]
        .boxed(),
    );
    add(w.remove_many, (slot(), 1u32..=many, any::<u16>()).prop_map(|(s, n, stride)| Op::RemoveMany { s, n, stride }).boxed());
    add(w.remove_all, slot().prop_map(|s| Op::RemoveAll { s }).boxed());
    add(w.linger_full, slot().prop_map(|s| Op::LingerFull { s }).boxed());
    add(w.tight_shrink, (slot(), any::<bool>()).prop_map(|(s, over)| Op::TightShrink { s, over }).boxed());
    add(w.remove_old, (slot(), 0u8..5, prop_oneof![3 => Just(0u8), 2 => 1u8..12]).prop_map(|(s, how, keep)| Op::RemoveOld { s, how, keep }).boxed());
    add(w.entry, (slot(), keysel(), chain()).prop_map(|(s, k, chain)| Op::Entry { s, k, chain }).boxed());
    add(w.rawmut, (slot(), keysel(), rawhow(), chain(), prop::bool::weighted(0.2)).prop_map(|(s, k, how, chain, probe_other)| Op::RawEntryMut { s, k, how, chain, probe_other }).boxed());
    add(w.raw, (slot(), keysel(), rawhow()).prop_map(|(s, k, how)| Op::RawEntry { s, k, how }).boxed());
    add(
        w.iter,
        (slot(), prop_oneof![Just(IterKind::Iter), Just(IterKind::Keys), Just(IterKind::Values), Just(IterKind::RefIntoIter)], take(), 0u8..4)
            .prop_map(|(s, kind, clone_at, extra)| Op::Iterate { s, kind, clone_at, extra, write: None })
            .boxed(),
    );
    add(
        w.iter_mut,
        (slot(), prop_oneof![Just(IterKind::IterMut), Just(IterKind::ValuesMut), Just(IterKind::MutIntoIter)], 0u8..4, optw())
            .prop_map(|(s, kind, extra, write)| Op::Iterate { s, kind, clone_at: None, extra, write })
            .boxed(),
    );
    add(w.drain, (slot(), take(), prop::bool::weighted(0.25)).prop_map(|(s, take, forget)| Op::Drain { s, take, forget }).boxed());
    add(w.into_iter, (slot(), take()).prop_map(|(s, take)| Op::IntoIter { s, take }).boxed());
    add(w.retain, (slot(), pred(), optw()).prop_map(|(s, pred, mutate)| Op::Retain { s, pred, mutate }).boxed());
    add(
        w.drain_filter,
        (slot(), pred(), optw(), take(), prop::bool::weighted(0.25))
            .prop_map(|(s, pred, mutate, take, forget)| Op::DrainFilter { s, pred, mutate, take, forget })
            .boxed(),
    );
    add(w.clear, slot().prop_map(|s| Op::Clear { s }).boxed());
    add(
        w.reserve,
        prop_oneof![
            (slot(), caparg(p), any::<bool>()).prop_map(|(s, n, follow)| Op::Reserve { s, n, follow }),
            (slot(), caparg(p), any::<bool>()).prop_map(|(s, n, follow)| Op::TryReserve { s, n, follow }),
        ]
        .boxed(),
    );
    add(
        w.shrink,
        prop_oneof![
            2 => slot().prop_map(|s| Op::ShrinkToFit { s }),
            3 => (slot(), caparg(p)).prop_map(|(s, m)| Op::ShrinkTo { s, m }),
        ]
        .boxed(),
    );
    add(w.extend, (slot(), items(24), any::<bool>()).prop_map(|(s, items, by_ref)| Op::Extend { s, items, by_ref }).boxed());
    add(w.from_iter, (slot(), items(40)).prop_map(|(s, items)| Op::FromIter { s, items }).boxed());
    add(
        w.with_cap,
        (slot(), caparg(p), any::<bool>(), proptest::option::of((hmode(&p.hash_modes), any::<u64>())))
            .prop_map(|(s, n, follow, hasher)| Op::WithCapacity { s, n, follow, hasher })
            .boxed(),
    );
    add(
        w.clone,
        prop_oneof![
            2 => (0u8..2, 0u8..2).prop_map(|(dst, src)| Op::CloneTo { dst, src }),
            3 => (0u8..2).prop_map(|d| Op::CloneFrom { dst: d, src: 1 - d }),
        ]
        .boxed(),
    );
    add(w.eq, Just(Op::EqCheck).boxed());
    add(w.debug, slot().prop_map(|s| Op::DebugCheck { s }).boxed());
    add(w.fill, slot().prop_map(|s| Op::FillToCapacity { s }).boxed());
    add(w.trigger, slot().prop_map(|s| Op::TriggerGrowth { s }).boxed());
    add(w.advance, (slot(), 1u8..6).prop_map(|(s, n)| Op::Advance { s, n }).boxed());
    add(w.churn, (slot(), 10u8..100).prop_map(|(s, remove_pct)| Op::Churn { s, remove_pct }).boxed());
    add(w.probe, slot().prop_map(|s| Op::ProbeHeadroom { s }).boxed());
    add(w.par, (slot(), 0u8..6, 1u8..4).prop_map(|(s, threads, reps)| Op::ParCheck { s, threads, reps }).boxed());
    add(w.serde, slot().prop_map(|s| Op::SerdeCheck { s }).boxed());
    add(w.set_point, (0u8..2, keysel(), 0u8..9).prop_map(|(s, k, which)| Op::SetPoint { s, k, which }).boxed());
    add(w.set_many, (0u8..2, 1u32..=many).prop_map(|(s, n)| Op::SetInsertMany { s, n }).boxed());
    add(w.set_retain, (0u8..2, pred()).prop_map(|(s, pred)| Op::SetRetain { s, pred }).boxed());
    add(
        w.set_drain_filter,
        (0u8..2, pred(), take(), prop::bool::weighted(0.25)).prop_map(|(s, pred, take, forget)| Op::SetDrainFilter { s, pred, take, forget }).boxed(),
    );
    add(
        w.set_iter,
        (0u8..2, 0u8..3, take(), take(), prop::bool::weighted(0.25))
            .prop_map(|(s, which, clone_at, take, forget)| Op::SetIter { s, which, clone_at, take, forget })
            .boxed(),
    );
    add(
        w.set_extend,
        (0u8..2, proptest::collection::vec(keysel(), 0..24), any::<bool>(), prop::bool::weighted(0.2))
            .prop_map(|(s, items, by_ref, from_iter)| Op::SetExtend { s, items, by_ref, from_iter })
            .boxed(),
    );
    add(
        w.set_misc,
        (0u8..2, prop_oneof![1 => Just(0u8), 3 => Just(1u8), 2 => Just(2u8), 2 => Just(3u8), 8 => Just(4u8), 2 => Just(5u8)], caparg(p))
            .prop_map(|(s, which, arg)| Op::SetMisc { s, which, arg })
            .boxed(),
    );
    add(w.set_clone, (0u8..2, any::<bool>()).prop_map(|(d, from)| Op::SetClone { dst: d, src: 1 - d, from }).boxed());
    add(w.set_algebra, Just(Op::SetAlgebra).boxed());
    add(w.set_par, (0u8..6, 1u8..4).prop_map(|(threads, reps)| Op::SetPar { threads, reps }).boxed());
    add(w.z, zop(p.z_feature_w).prop_map(Op::Z).boxed());
    add(w.set_serde, (0u8..2, any::<bool>(), prop::bool::weighted(0.3)).prop_map(|(s, in_place, empty)| Op::SetSerde { s, in_place, empty }).boxed());
    Union::new_weighted(v).boxed()
}

fn zop(fw: (u32, u32)) -> BoxedStrategy<crate::zst::ZOp> {
    use crate::zst::ZOp::*;
    let t = || proptest::option::of(any::<u8>());
    prop_oneof![
        6 => Just(Insert),
        5 => any::<u8>().prop_map(Dup),
        6 => Just(Remove),
        2 => Just(RemoveEntry),
        2 => Just(Get),
        5 => (0u16..200).prop_map(Reserve),
        2 => (0u16..200).prop_map(TryReserve),
        2 => Just(ShrinkToFit),
        2 => (0u16..100).prop_map(ShrinkTo),
        4 => (any::<u8>(), any::<u8>()).prop_map(|(m, k)| Retain(m, k)),
        4 => (any::<u8>(), any::<u8>(), t(), prop::bool::weighted(0.25)).prop_map(|(m, k, t, f)| DrainFilter(m, k, t, f)),
        3 => any::<bool>().prop_map(EntryReplace),
        3 => any::<bool>().prop_map(RawReplace),
        3 => Just(EntryRemove),
        3 => Just(RawRemove),
        2 => Just(OrInsert),
        2 => Just(Iterate),
        2 => (t(), prop::bool::weighted(0.25)).prop_map(|(t, f)| Drain(t, f)),
        1 => t().prop_map(IntoIter),
        1 => Just(Clear),
        2 => Just(CloneTo),
        2 => Just(CloneFrom),
        6 => Just(Trigger),
        4 => Just(SetInsert),
        4 => Just(SetRemove),
        2 => Just(SetTake),
        2 => Just(SetReplace),
        2 => Just(SetGetOrInsert),
        4 => (0u16..200).prop_map(SetReserve),
        1 => Just(SetShrink),
        2 => any::<bool>().prop_map(SetRetain),
        1 => Just(SetClear),
        1 => Just(SetIterate),
        1 => prop::bool::weighted(0.25).prop_map(SetDrain),
        1 => Just(SetClone),
        fw.0 => prop::bool::weighted(0.6).prop_map(Serde),
        fw.1 => any::<u8>().prop_map(Par),
    ]
    .boxed()
}

fn hmode(w: &[u32; 4]) -> BoxedStrategy<HMode> {
    let mut v: Vec<(u32, BoxedStrategy<HMode>)> = Vec::new();
    for (i, m) in [HMode::Good, HMode::Identity, HMode::Low, HMode::Collide].into_iter().enumerate() {
        if w[i] > 0 {
            v.push((w[i], Just(m).boxed()));
        }
    }
    Union::new_weighted(v).boxed()
}

const CAPS: [u32; 16] = [0, 0, 0, 1, 3, 4, 7, 8, 14, 15, 28, 29, 56, 57, 112, 113];

/// prelude: build a map of some size and (usually) start a resize, so that the generated body
/// runs with a resize in flight
fn prelude(p: &Profile) -> BoxedStrategy<Vec<Op>> {
    let many = p.many_max;
    let sets = p.w.set_point > 0;
    let maps = p.w.insert > 0;
    let big_p = if p.big_cases { 0.003 } else { 0.0 };
    (0u32..=many, prop::bool::weighted(0.8), 0u32..=many / 2, prop::bool::weighted(0.6), 0u8..8, 0u8..8, prop::bool::weighted(big_p), 60_000u32..140_000)
        .prop_map(move |(n0, t0, n1, t1, adv0, adv1, big, nbig)| {
            let n0 = if big { nbig } else { n0 };
            let mut v = Vec::new();
            if maps {
                if n0 > 0 {
                    v.push(Op::InsertMany { s: 0, n: n0, v: 1 });
                }
                if t0 {
                    v.push(Op::TriggerGrowth { s: 0 });
                    if adv0 > 4 {
                        v.push(Op::Advance { s: 0, n: adv0 - 4 });
                    }
                }
                if n1 > 0 {
                    v.push(Op::InsertMany { s: 1, n: n1, v: 2 });
                }
                if t1 {
                    v.push(Op::TriggerGrowth { s: 1 });
                }
            }
            if sets {
                if n0 > 0 {
                    v.push(Op::SetInsertMany { s: 0, n: n0 });
                }
                if t0 {
                    v.push(Op::SetMisc { s: 0, which: 4, arg: CapArg::Small(0) });
                }
                if n1 > 0 {
                    v.push(Op::SetInsertMany { s: 1, n: n1 / 2 + (adv1 as u32) });
                }
                if t1 {
                    v.push(Op::SetMisc { s: 1, which: 4, arg: CapArg::Small(0) });
                }
            }
            v
        })
        .boxed()
}

pub fn case_strategy(p: &Profile) -> BoxedStrategy<Case> {
    if p.z_heavy_pct > 0 && p.z_heavy_pct < 100 {
        let mut plain = p.clone();
        plain.z_heavy_pct = 0;
        let mut zh = plain.clone();
        zh.w = W { z: 40, insert: 2, lookup: 1, trigger: 1, set_point: 1, ..W::default() };
        zh.max_ops = p.max_ops.min(24);
        return Union::new_weighted(vec![(100 - p.z_heavy_pct, case_strategy(&plain)), (p.z_heavy_pct, case_strategy(&zh))]).boxed();
    }
    let fam = match p.family {
        0 => Just(Family::P).boxed(),
        1 => Just(Family::T).boxed(),
        _ => prop_oneof![Just(Family::P), Just(Family::T)].boxed(),
    };
    let hm = p.hash_modes;
    let max_ops = p.max_ops;
    (
        fam,
        (hmode(&hm), any::<u64>(), hmode(&hm), any::<u64>()),
        (0usize..16, 0usize..16),
        prop_oneof![Just(8u32), Just(64u32), Just(512u32), Just(4096u32)],
        prelude(p),
        proptest::collection::vec(op_strategy(p), 1..=max_ops),
    )
        .prop_map(|(family, (m0, s0, m1, s1), (c0, c1), universe, pre, body)| {
            let mut ops = pre;
            ops.extend(body);
            Case {
                family,
                hashers: [VH { mode: m0, seed: s0 }, VH { mode: m1, seed: s1 }],
                init_cap: [CAPS[c0], CAPS[c1]],
                universe,
                ops,
            }
        })
        .boxed()
}

/// C14: two or three different histories that reach the same contents.
pub fn c14_case_strategy(thorough: bool) -> BoxedStrategy<Case> {
    let nmax = if thorough { 700usize } else { 260 };
    (
        prop_oneof![Just(Family::P), Just(Family::T)],
        (hmode(&[5, 2, 2, 1]), any::<u64>(), hmode(&[5, 2, 2, 1]), any::<u64>()),
        (0usize..16, 0usize..16),
        proptest::collection::vec((0u32..4096, 0u32..50), 0..nmax),
        any::<u64>(),
        // recipe flags for the second history
        (any::<bool>(), any::<bool>(), any::<bool>(), any::<bool>(), 0u8..4, 0u8..4),
        // negative variant: change one value / remove one key / add one key at the end
        0u8..5,
        (any::<u16>(), 0u8..12, 20u32..400),
    )
        .prop_map(|(family, (m0, s0, m1, s1), (c0, c1), mut content, perm_seed, (extras, reserve, shrink, split_b, split_a, junk), neg, (negsel, removal, bulk))| {
            let mut ops = Vec::new();
            // removal histories (removal 1..=5): B first holds `bulk` keys above the universe and is
            // mid-resize, gets the (few) contents, and then loses the bulk again through retain,
            // drain_filter or remove - with retain an emptied old table lingers. removal 5: nothing
            // is left at all (an emptied map against a new one)
            let removal = if removal > 5 { 0 } else { removal };
            if removal > 0 {
                content.truncate(if removal == 5 { 0 } else { (bulk / 12) as usize });
            }
            // history A: plain insertion order
            for (k, v) in &content {
                ops.push(Op::Insert { s: 0, k: KeySel::Any(*k), v: *v });
            }
            // A's contents are "last write wins"; B must end with the same values: insert in a
            // permuted order first, then re-apply the final values in A's order for duplicates
            let mut order: Vec<usize> = (0..content.len()).collect();
            let mut x = perm_seed | 1;
            for i in (1..order.len()).rev() {
                x = crate::elems::splitmix(x);
                order.swap(i, (x % (i as u64 + 1)) as usize);
            }
            if reserve {
                ops.push(Op::Reserve { s: 1, n: CapArg::Medium((content.len() / 2) as u16), follow: false });
            }
            if removal > 0 {
                ops.push(Op::InsertMany { s: 1, n: bulk, v: 7 });
                ops.push(Op::TriggerGrowth { s: 1 });
            }
            for (j, i) in order.iter().enumerate() {
                let (k, v) = content[*i];
                ops.push(Op::Insert { s: 1, k: KeySel::Any(k), v: v.wrapping_add(1000) });
                if extras && j % 5 == 0 {
                    // insert + remove of an unrelated key leaves a tombstone
                    ops.push(Op::Insert { s: 1, k: KeySel::Any(5000 + j as u32), v: 0 });
                }
            }
            for (k, v) in &content {
                ops.push(Op::Insert { s: 1, k: KeySel::Any(*k), v: *v });
            }
            if extras {
                for j in (0..order.len()).step_by(5) {
                    ops.push(Op::Remove { s: 1, k: KeySel::Any(5000 + j as u32) });
                }
            }
            match removal {
                1 | 5 => ops.push(Op::Retain { s: 1, pred: Pred::KeyBelow(8192), mutate: None }),
                2 => {
                    ops.push(Op::Retain { s: 1, pred: Pred::OnlyMain, mutate: None });
                    ops.push(Op::Retain { s: 1, pred: Pred::KeyBelow(8192), mutate: None });
                }
                3 => ops.push(Op::DrainFilter { s: 1, pred: Pred::All, mutate: None, take: None, forget: false }),
                4 => ops.push(Op::RemoveFresh { s: 1 }),
                _ => {}
            }
            if removal == 3 || removal == 2 {
                // the contents went too: put them back (B's table now has tombstones / a lingering old table)
                for (k, v) in &content {
                    ops.push(Op::Insert { s: 1, k: KeySel::Any(*k), v: *v });
                }
            }
            if shrink && removal == 0 {
                ops.push(Op::ShrinkToFit { s: 1 });
            }
            for _ in 0..junk {
                ops.push(Op::Advance { s: 1, n: 3 });
            }
            if split_b {
                ops.push(Op::TriggerGrowth { s: 1 });
            }
            if split_a > 2 {
                ops.push(Op::TriggerGrowth { s: 0 });
            }
            if split_a == 1 {
                // park everything in the old table: reserve just beyond the free space
                ops.push(Op::Reserve { s: 1, n: CapArg::AroundFree(1), follow: false });
            }
            if split_a == 2 && junk == 0 {
                ops.push(Op::Reserve { s: 0, n: CapArg::AroundFree(1), follow: false });
            }
            // steering keys are fresh keys: remove them again (removals move nothing)
            ops.push(Op::RemoveFresh { s: 0 });
            ops.push(Op::RemoveFresh { s: 1 });
            if junk == 3 {
                // a third way to reach the same contents: clone_from the other history (which may be
                // mid-resize and hash differently)
                ops.push(Op::CloneFrom { dst: 0, src: 1 });
            }
            ops.push(Op::EqCheck);
            ops.push(Op::DebugCheck { s: 0 });
            ops.push(Op::DebugCheck { s: 1 });
            ops.push(Op::Iterate { s: 0, kind: IterKind::Iter, clone_at: None, extra: 1, write: None });
            ops.push(Op::Iterate { s: 1, kind: IterKind::Keys, clone_at: None, extra: 1, write: None });
            ops.push(Op::Iterate { s: 1, kind: IterKind::Values, clone_at: None, extra: 1, write: None });
            ops.push(Op::CrossGet);
            // third history: a clone of B is compared with A (transitivity through the model)
            match neg {
                0 => {}
                1 => {
                    ops.push(Op::GetMut { s: 1, k: KeySel::InOld(negsel), w: Some(777_777) });
                    ops.push(Op::EqCheck);
                }
                2 => {
                    ops.push(Op::Remove { s: 1, k: KeySel::InOld(negsel) });
                    ops.push(Op::EqCheck);
                    ops.push(Op::CrossGet);
                }
                3 => {
                    ops.push(Op::Insert { s: 0, k: KeySel::Any(4097), v: 1 });
                    ops.push(Op::EqCheck);
                }
                _ => {
                    ops.push(Op::GetMut { s: 0, k: KeySel::Existing(negsel), w: Some(888_888) });
                    ops.push(Op::EqCheck);
                    ops.push(Op::CrossGet);
                }
            }
            Case {
                family,
                hashers: [VH { mode: m0, seed: s0 }, VH { mode: m1, seed: s1 }],
                init_cap: [CAPS[c0], CAPS[c1]],
                universe: 8192,
                ops,
            }
        })
        .boxed()
}
