use gv::instr;
use gv::interp::Prop;
use gv::ops::Case;
use gv::runner;
use serde_json::json;
use std::io::Write;

fn arg(args: &[String], name: &str) -> Option<String> {
    args.iter().position(|a| a == name).and_then(|i| args.get(i + 1).cloned())
}

fn main() {
    instr::install_panic_hook();
    let args: Vec<String> = std::env::args().collect();
    let cmd = args.get(1).map(|s| s.as_str()).unwrap_or("");
    match cmd {
        "worker" => {
            let prop = Prop::parse(&arg(&args, "--prop").expect("--prop")).expect("property id");
            let thorough = arg(&args, "--tier").as_deref() == Some("thorough");
            let seed: u64 = arg(&args, "--seed").and_then(|s| s.parse().ok()).unwrap_or(1);
            let cases: u32 = arg(&args, "--cases").and_then(|s| s.parse().ok()).unwrap_or(100);
            let out = arg(&args, "--out").expect("--out");
            let known: Vec<String> = arg(&args, "--known")
                .and_then(|p| std::fs::read_to_string(p).ok())
                .and_then(|t| serde_json::from_str(&t).ok())
                .unwrap_or_default();
            let current = arg(&args, "--current");
            let profile = arg(&args, "--profile").and_then(|p| Prop::parse(&p));
            let hang_marker = Some(format!("{}.hang", out));
            let cfg = runner::WorkerCfg { prop, thorough, seed, cases, known, current, profile, hang_marker };
            let res = if prop == Prop::C07 { gv::faults::worker(&cfg) } else { runner::worker(&cfg) };
            std::fs::write(&out, serde_json::to_string(&res).unwrap()).expect("write result");
        }
        "replay" => {
            // strict replay of one case file; prints failures; exit 1 if a failure carries --prop
            let prop = Prop::parse(&arg(&args, "--prop").expect("--prop")).expect("property id");
            let path = arg(&args, "--case").expect("--case");
            let thorough = arg(&args, "--tier").as_deref() == Some("thorough");
            let txt = std::fs::read_to_string(&path).expect("read case");
            let v: serde_json::Value = serde_json::from_str(&txt).expect("json");
            let res = if v.get("fault").is_some() || v.get("target").is_some() {
                gv::faults::replay(&v, prop)
            } else {
                let case: Case = serde_json::from_value(v.get("case").cloned().unwrap_or(v.clone())).expect("case");
                let out = runner::replay(&case, thorough, Some(prop));
                match out.fail {
                    Some(f) => json!({"failed": true, "tags": f.tags.iter().map(|t| t.name()).collect::<Vec<_>>(), "owns": f.has(prop), "describe": f.describe(), "signature": f.signature()}),
                    None => json!({"failed": false, "ops": out.ops_done}),
                }
            };
            println!("{}", res);
            let owns = res.get("owns").and_then(|b| b.as_bool()).unwrap_or(false);
            std::process::exit(if owns { 1 } else { 0 });
        }
        "gen" => {
            // writes N generated cases (one JSON per line) for out-of-process runs
            let prop = Prop::parse(&arg(&args, "--prop").expect("--prop")).expect("property id");
            let thorough = arg(&args, "--tier").as_deref() == Some("thorough");
            let seed: u64 = arg(&args, "--seed").and_then(|s| s.parse().ok()).unwrap_or(1);
            let cases: u32 = arg(&args, "--cases").and_then(|s| s.parse().ok()).unwrap_or(100);
            let out = arg(&args, "--out").expect("--out");
            let cs = gv::transcript::generate(prop, thorough, seed, cases);
            let mut f = std::io::BufWriter::new(std::fs::File::create(out).expect("create"));
            for c in cs {
                writeln!(f, "{}", serde_json::to_string(&c).unwrap()).unwrap();
            }
        }
        "decode" => {
            // bytes of a fuzzer input -> case JSON (same decoder as the fuzz target)
            let path = arg(&args, "--input").expect("--input");
            let data = std::fs::read(&path).expect("read input");
            match gv::fuzzing::decode(&data) {
                Some(c) => println!("{}", serde_json::to_string(&c).unwrap()),
                None => std::process::exit(3),
            }
        }
        "transcript" => {
            let path = arg(&args, "--cases").expect("--cases");
            let out = arg(&args, "--out").expect("--out");
            let from: usize = arg(&args, "--from").and_then(|s| s.parse().ok()).unwrap_or(0);
            let thorough = arg(&args, "--tier").as_deref() == Some("thorough");
            gv::transcript::run(&path, &out, from, thorough);
        }
        _ => {
            eprintln!("usage: gv worker|replay|gen|transcript ...");
            std::process::exit(2);
        }
    }
}
