//! Execution of the individual operations of a case.

use crate::chains::*;
use crate::elems::*;
use crate::instr::*;
use crate::interp::*;
use crate::ops::*;
use std::collections::{BTreeMap, BTreeSet};

const BULK_CAP: u32 = 400_000;

type Seen = Option<(u32, u32, u32, u32)>;

impl<F: Fam> Ctx<F> {
    pub fn step(&mut self, idx: usize, op: &Op) -> Result<(), Fail> {
        self.op_index = idx;
        self.op_name = op.name();
        self.stats.ops += 1;
        *self.stats.by_op.entry(op.name()).or_insert(0) += 1;
        let before = self.stats.phase[1] + self.stats.phase[2];
        legit_clear();
        let r = self.step_inner(op);
        if self.stats.phase[1] + self.stats.phase[2] > before {
            self.stats.ops_at_l += 1;
        }
        r
    }

    fn step_inner(&mut self, op: &Op) -> Result<(), Fail> {
        match op {
            Op::Insert { s, k, v } => {
                let s = (*s & 1) as usize;
                let kk = self.resolve(s, *k);
                self.do_insert(s, kk, *v, None)?;
                self.after_op(s, &[C01], false)
            }
            Op::InsertMany { s, n, v } => {
                let s = (*s & 1) as usize;
                let cap = self.len_cap(s);
                for i in 0..(*n).min(BULK_CAP) {
                    if self.slots[s].model.len() >= cap {
                        break;
                    }
                    let kk = self.fresh_key();
                    self.do_insert(s, kk, v.wrapping_add(i), None)?;
                    self.quick_check(s, &[C01])?;
                }
                self.after_op(s, &[C01], false)
            }
            Op::Get { s, k } => self.do_lookup(*s, *k, 0, None),
            Op::GetMut { s, k, w } => self.do_lookup(*s, *k, 1, *w),
            Op::GetKeyValue { s, k } => self.do_lookup(*s, *k, 2, None),
            Op::GetKeyValueMut { s, k, w } => self.do_lookup(*s, *k, 3, *w),
            Op::ContainsKey { s, k } => self.do_lookup(*s, *k, 4, None),
            Op::Index { s, k } => self.do_index(*s, *k),
            Op::Remove { s, k } => {
                let s = (*s & 1) as usize;
                let kk = self.resolve(s, *k);
                self.do_remove(s, kk, false)?;
                self.after_op(s, &[C01], false)
            }
            Op::RemoveEntry { s, k } => {
                let s = (*s & 1) as usize;
                let kk = self.resolve(s, *k);
                self.do_remove(s, kk, true)?;
                self.after_op(s, &[C01], false)
            }
            Op::RemoveMany { s, n, stride } => {
                let s = (*s & 1) as usize;
                let keys: Vec<u32> = self.slots[s]
                    .model
                    .keys()
                    .step_by(*stride as usize % 7 + 1)
                    .take((*n).min(BULK_CAP) as usize)
                    .copied()
                    .collect();
                for (i, kk) in keys.into_iter().enumerate() {
                    self.do_remove(s, kk, i % 2 == 1)?;
                    self.quick_check(s, &[C01])?;
                }
                self.after_op(s, &[C01], false)
            }
            Op::Entry { s, k, chain } => {
                let s = (*s & 1) as usize;
                let kk = self.resolve(s, *k);
                self.do_chain(s, kk, None, chain)?;
                self.after_op(s, &[C01, C12], false)
            }
            Op::RawEntryMut { s, k, how, chain, probe_other } => {
                let s = (*s & 1) as usize;
                let kk = self.resolve(s, *k);
                if *probe_other && !self.slots[s].model.contains_key(&kk) {
                    let pk = self.fresh_key();
                    if !self.slots[s].model.contains_key(&pk) && pk != kk {
                        self.probe_next = Some(pk);
                    }
                }
                self.do_chain(s, kk, Some(*how), chain)?;
                self.after_op(s, &[C01, C12], false)
            }
            Op::RawEntry { s, k, how } => self.do_raw_lookup(*s, *k, *how),
            Op::Iterate { s, kind, clone_at, extra, write } => self.do_iterate((*s & 1) as usize, *kind, *clone_at, *extra, *write),
            Op::Drain { s, take, forget } => self.do_drain((*s & 1) as usize, *take, *forget),
            Op::IntoIter { s, take } => self.do_into_iter((*s & 1) as usize, *take),
            Op::Retain { s, pred, mutate } => self.do_retain((*s & 1) as usize, *pred, *mutate),
            Op::DrainFilter { s, pred, mutate, take, forget } => self.do_drain_filter((*s & 1) as usize, *pred, *mutate, *take, *forget),
            Op::Clear { s } => {
                let s = (*s & 1) as usize;
                if self.st(s).l() > 0 {
                    self.nt(C06);
                }
                let (_, obs) = self.observe(s, true, &[], |m| m.clear())?;
                self.slots[s].model.clear();
                let mut f = Facts::of(Kind::Bulk);
                f.clears = true;
                f.listed = true;
                self.judge(s, &obs, &f)?;
                self.after_op(s, &[C01], true)
            }
            Op::Reserve { s, n, follow } => self.do_reserve((*s & 1) as usize, *n, *follow, false),
            Op::TryReserve { s, n, follow } => self.do_reserve((*s & 1) as usize, *n, *follow, true),
            Op::ShrinkToFit { s } => self.do_shrink((*s & 1) as usize, None),
            Op::ShrinkTo { s, m } => self.do_shrink((*s & 1) as usize, Some(*m)),
            Op::Extend { s, items, by_ref } => self.do_extend((*s & 1) as usize, items, *by_ref),
            Op::FromIter { s, items } => self.do_from_iter((*s & 1) as usize, items),
            Op::WithCapacity { s, n, follow, hasher } => self.do_with_capacity((*s & 1) as usize, *n, *follow, *hasher),
            Op::CloneTo { dst, src } => self.do_clone((*dst & 1) as usize, (*src & 1) as usize, false),
            Op::CloneFrom { dst, src } => self.do_clone((*dst & 1) as usize, (*src & 1) as usize, true),
            Op::EqCheck => self.do_eq_check(),
            Op::DebugCheck { s } => self.do_debug_check((*s & 1) as usize),
            Op::FillToCapacity { s } => self.do_fill((*s & 1) as usize, false),
            Op::TriggerGrowth { s } => self.do_fill((*s & 1) as usize, true),
            Op::Advance { s, n } => {
                let s = (*s & 1) as usize;
                for _ in 0..*n {
                    let kk = self.fresh_key();
                    self.do_insert(s, kk, 7, None)?;
                }
                self.after_op(s, &[C01], false)
            }
            Op::Churn { s, remove_pct } => self.do_churn((*s & 1) as usize, *remove_pct),
            Op::ProbeHeadroom { s } => self.do_probe((*s & 1) as usize),
            Op::RemoveFresh { s } => {
                let s = (*s & 1) as usize;
                let u = self.universe;
                let keys: Vec<u32> = self.slots[s].model.range(u.saturating_add(1)..).map(|(k, _)| *k).collect();
                for kk in keys {
                    self.do_remove(s, kk, false)?;
                }
                self.after_op(s, &[C01], true)
            }
            Op::CrossGet => self.do_cross_get(),
            Op::RemoveOld { s, how, keep } => {
                let s = (*s & 1) as usize;
                let mut keys: Vec<u32> = self.old_keys_pub(s).into_iter().collect();
                let keep = (*keep as usize).min(keys.len());
                keys.truncate(keys.len() - keep);
                for kk in keys {
                    match how % 5 {
                        0 => self.do_remove(s, kk, false)?,
                        1 => self.do_remove(s, kk, true)?,
                        2 => self.do_chain(s, kk, None, &Chain { steps: vec![], end: EEnd::Match(OStep::Get, OEnd::Remove, VEnd::Drop) })?,
                        3 => self.do_chain(s, kk, Some(RawHow::FromKey), &Chain { steps: vec![], end: EEnd::Match(OStep::Key, OEnd::RemoveEntry, VEnd::Drop) })?,
                        _ => self.do_chain(s, kk, None, &Chain { steps: vec![EStep::AndReplace(None)], end: EEnd::Drop })?,
                    }
                    self.quick_check(s, &[C01])?;
                }
                self.after_op(s, &[C01], true)
            }
            Op::LingerFull { s } => {
                let s8 = *s;
                let si = (s8 & 1) as usize;
                if self.st(si).l() > 0 {
                    self.do_retain(si, Pred::OnlyMain, None)?;
                }
                self.step_inner(&Op::TightShrink { s: s8, over: false })
            }
            Op::TightShrink { s, over } => {
                let s = (*s & 1) as usize;
                let st = self.st(s);
                let l = st.l();
                // also with an old table that was emptied but not freed: the main table alone is aligned
                if l > 0 || st.old_present() {
                    let need = st.hook.main_len + l + (l + self.r - 1) / self.r;
                    // capacities hashbrown can have: 3, 7, then 7/8 of a power of two
                    let mut b = 3usize;
                    let mut best = 0usize;
                    let mut buckets = 4usize;
                    while b <= need {
                        best = b;
                        buckets *= 2;
                        b = if buckets == 8 { 7 } else { buckets / 8 * 7 };
                    }
                    // `over`: stop one above the boundary
                    let mut target = best + *over as usize;
                    if target > need {
                        // already at or below: go for the next boundary down
                        let mut b2 = 3usize;
                        let mut prev = 0usize;
                        let mut bk = 4usize;
                        while b2 < best {
                            prev = b2;
                            bk *= 2;
                            b2 = if bk == 8 { 7 } else { bk / 8 * 7 };
                        }
                        target = prev + *over as usize;
                    }
                    let to_remove = need.saturating_sub(target);
                    if best > 0 && target > 0 && to_remove > 0 && to_remove < st.hook.main_len && to_remove <= 300 {
                        let mut removed = 0;
                        let keys: Vec<u32> = self.slots[s].model.keys().copied().collect();
                        for kk in keys {
                            if removed >= to_remove {
                                break;
                            }
                            if self.in_old(s, kk) == Some(false) {
                                self.do_remove(s, kk, false)?;
                                removed += 1;
                            }
                        }
                    }
                }
                self.do_shrink(s, None)
            }
            Op::RemoveAll { s } => {
                let s = (*s & 1) as usize;
                let keys: Vec<u32> = self.slots[s].model.keys().copied().collect();
                for (i, kk) in keys.into_iter().enumerate() {
                    self.do_remove(s, kk, i % 3 == 2)?;
                }
                self.after_op(s, &[C01], true)
            }
            Op::ParCheck { s, threads, reps } => self.do_par_check((*s & 1) as usize, *threads, *reps),
            Op::SerdeCheck { s } => self.do_serde_check((*s & 1) as usize),
            Op::Z(z) => self.do_z(z),
            Op::SetPoint { s, k, which } => {
                let s = (*s & 1) as usize;
                let kk = self.resolve_set(s, *k);
                self.do_set_point(s, kk, *which % 9)
            }
            Op::SetInsertMany { s, n } => {
                let s = (*s & 1) as usize;
                let cap = self.len_cap(s + 2);
                for _ in 0..(*n).min(BULK_CAP) {
                    if self.sets[s].model.len() >= cap {
                        break;
                    }
                    let kk = self.fresh_key();
                    self.do_set_point(s, kk, 0)?;
                }
                Ok(())
            }
            Op::SetRetain { s, pred } => self.do_set_retain((*s & 1) as usize, *pred),
            Op::SetDrainFilter { s, pred, take, forget } => self.do_set_drain_filter((*s & 1) as usize, *pred, *take, *forget),
            Op::SetIter { s, which, clone_at, take, forget } => self.do_set_iter((*s & 1) as usize, *which % 3, *clone_at, *take, *forget),
            Op::SetExtend { s, items, by_ref, from_iter } => self.do_set_extend((*s & 1) as usize, items, *by_ref, *from_iter),
            Op::SetMisc { s, which, arg } => {
                let s = (*s & 1) as usize;
                let w = *which % 6;
                let a = match arg {
                    // HashSet::try_reserve is the one set operation that takes a huge argument
                    CapArg::Huge(i) if w == 5 => resolve_huge(*i),
                    CapArg::Huge(_) => 0,
                    other => self.resolve_cap(s + 2, *other),
                };
                self.do_set_misc(s, w, a)
            }
            Op::SetClone { dst, src, from } => self.do_set_clone((*dst & 1) as usize, (*src & 1) as usize, *from),
            Op::SetAlgebra => self.do_set_algebra(),
            Op::SetPar { threads, reps } => self.do_set_par(*threads, *reps),
            Op::SetSerde { s, in_place, empty } => self.do_set_serde((*s & 1) as usize, *in_place, *empty),
        }
    }

    /// low-entropy and colliding hashers make probing quadratic: bulk steering stops early there
    fn len_cap(&self, mi: usize) -> usize {
        match self.meta[mi].vh.mode {
            HMode::Collide => 400,
            HMode::Low => 1500,
            _ => usize::MAX,
        }
    }

    fn note_loc(&mut self, present: bool, in_old: Option<bool>) {
        let i = if !present {
            0
        } else if in_old == Some(true) {
            2
        } else {
            1
        };
        self.stats.loc[i] += 1;
    }

    /// `HashMap::insert`. `no_alloc`: the property that forbids an allocation here (follow-up
    /// inserts after reserve / with_capacity, probe).
    pub fn do_insert(&mut self, s: usize, kk: u32, v: u32, no_alloc: Option<(Prop, &'static str)>) -> Result<Obs, Fail> {
        let present = self.slots[s].model.get(&kk).copied();
        let loc = if present.is_some() { self.in_old(s, kk) } else { None };
        self.note_loc(present.is_some(), loc);
        let key = F::K::mk(kk);
        let val = F::V::mk(v);
        let (kid, vid) = (key.id(), val.id());
        let (ret, obs) = self.observe(s, true, &[], move |m| {
            m.insert(key, val).map(|old| {
                old.check("insert-return");
                (old.v(), old.id())
            })
        })?;
        match (ret, present) {
            (None, None) => {
                self.slots[s].model.insert(kk, ME { kid, v, vid });
            }
            (Some((ov, ovid)), Some(me)) if ov == me.v && ovid == me.vid => {
                self.slots[s].model.insert(kk, ME { kid: me.kid, v, vid });
            }
            (got, want) => {
                let mut tags = vec![C01];
                if let (Some((ov, _)), Some(me)) = (got, want) {
                    if ov == me.v {
                        tags.push(C06);
                    }
                }
                return Err(self.mkfail(tags, "insert-return", format!("insert({}) returned {:?}, reference entry was {:?}", kk, got, want), String::new()));
            }
        }
        let mut f = Facts::point(kk);
        f.added = present.is_none();
        f.overwrote_old = loc == Some(true);
        self.judge(s, &obs, &f)?;
        if let Some((p, what)) = no_alloc {
            if obs.alloc.allocs != 0 {
                return Err(self.mkfail(vec![p], what, format!("insert allocated {} time(s) although room had been promised (len {} capacity {})", obs.alloc.allocs, obs.pre.len, obs.pre.cap), String::new()));
            }
        }
        Ok(obs)
    }

    fn do_lookup(&mut self, s: u8, k: KeySel, which: u8, w: Option<u32>) -> Result<(), Fail> {
        let s = (s & 1) as usize;
        let kk = self.resolve(s, k);
        let present = self.slots[s].model.get(&kk).copied();
        let loc = if present.is_some() { self.in_old(s, kk) } else { None };
        self.note_loc(present.is_some(), loc);
        let q = F::K::mk(kk);
        // every fourth lookup goes through the borrowed form of the key (`K: Borrow<QV>`)
        let borrowed = (kk as usize ^ self.op_index) % 4 == 0;
        let (seen, obs): (Result<Seen, bool>, Obs) = self.observe(s, true, &[], move |m| {
            if borrowed {
                F::lookup_qv(m, QV::of(&kk), which, w)
            } else {
                lookup_with::<F, F::K>(m, &q, which, w, kk)
            }
        })?;
        match seen {
            Err(b) => {
                if b != present.is_some() {
                    fail!(self, [C01], "contains-key", "contains_key({}) = {}, reference present = {}", kk, b, present.is_some());
                }
            }
            Ok(seen) => {
                let ok = match (seen, present) {
                    (None, None) => true,
                    (Some((gk, gkid, gv, gvid)), Some(me)) => {
                        gk == kk && gv == me.v && gvid == me.vid && (which < 2 || gkid == me.kid)
                    }
                    _ => false,
                };
                if !ok {
                    fail!(self, [C01], "lookup-return", "{}({}) returned {:?}, reference entry is {:?}", self.op_name, kk, seen, present);
                }
                if let (Some(w), Some(me)) = (w, present) {
                    if which == 1 || which == 3 {
                        self.slots[s].model.insert(kk, ME { v: w, ..me });
                    }
                }
            }
        }
        let f = Facts::point(kk);
        self.judge(s, &obs, &f)?;
        self.after_op(s, &[C01], false)
    }

    fn do_index(&mut self, s: u8, k: KeySel) -> Result<(), Fail> {
        let s = (s & 1) as usize;
        let kk = self.resolve(s, k);
        let present = self.slots[s].model.get(&kk).copied();
        let q = F::K::mk(kk);
        let borrowed = (kk as usize ^ self.op_index) % 4 == 0;
        let (r, obs) = self.observe_raw(s, move |m| {
            if borrowed {
                return F::index_qv(m, QV::of(&kk));
            }
            let v = &m[&q];
            (v.v(), v.id())
        });
        let mut panicked = false;
        match (r, present) {
            (Ok((gv, gvid)), Some(me)) if gv == me.v && gvid == me.vid => {}
            (Err(p), None) if p.msg.contains("no entry found for key") => {
                panicked = true;
            }
            (Err(p), None) => {
                fail!(self, [C01], "index-panic-message", "indexing a missing key panicked with an unexpected message {:?} at {}", p.msg, p.loc);
            }
            (Err(p), Some(_)) => return Err(self.unexpected_panic(&p, &obs.pre, true, &[])),
            (Ok(got), want) => {
                fail!(self, [C01], "index-return", "map[{}] returned {:?}, reference entry is {:?}", kk, got, want);
            }
        }
        let mut f = Facts::point(kk);
        f.panicked = panicked;
        self.judge(s, &obs, &f)?;
        self.after_op(s, &[C01], false)
    }

    pub fn do_remove(&mut self, s: usize, kk: u32, entry: bool) -> Result<(), Fail> {
        let present = self.slots[s].model.get(&kk).copied();
        let loc = if present.is_some() { self.in_old(s, kk) } else { None };
        self.note_loc(present.is_some(), loc);
        let q = F::K::mk(kk);
        let borrowed = (kk as usize ^ self.op_index) % 4 == 0;
        let (seen, obs): (Seen, Obs) = self.observe(s, true, &[], move |m| {
            if borrowed {
                F::remove_qv(m, QV::of(&kk), entry)
            } else if entry {
                m.remove_entry(&q).map(|(k, v)| {
                    k.check("remove_entry");
                    v.check("remove_entry");
                    (k.k(), k.id(), v.v(), v.id())
                })
            } else {
                m.remove(&q).map(|v| {
                    v.check("remove");
                    (kk, 0, v.v(), v.id())
                })
            }
        })?;
        let ok = match (seen, present) {
            (None, None) => true,
            (Some((gk, gkid, gv, gvid)), Some(me)) => gk == kk && gv == me.v && gvid == me.vid && (!entry || gkid == me.kid),
            _ => false,
        };
        if !ok {
            let mut tags = vec![C01];
            if let (Some(g), Some(me)) = (seen, present) {
                if g.2 == me.v {
                    tags.push(C06);
                }
            }
            return Err(self.mkfail(tags, "remove-return", format!("{}({}) returned {:?}, reference entry was {:?}", self.op_name, kk, seen, present), String::new()));
        }
        self.slots[s].model.remove(&kk);
        let mut f = Facts::point(kk);
        if loc == Some(true) {
            f.removed_from_old = 1;
            self.nt(C06);
        }
        self.judge(s, &obs, &f)
    }

    fn do_raw_lookup(&mut self, s: u8, k: KeySel, how: RawHow) -> Result<(), Fail> {
        let s = (s & 1) as usize;
        let kk = self.resolve(s, k);
        let present = self.slots[s].model.get(&kk).copied();
        let loc = if present.is_some() { self.in_old(s, kk) } else { None };
        self.note_loc(present.is_some(), loc);
        let q = F::K::mk(kk);
        let hash = self.meta[s].vh.hash_of(kk as u64);
        let (seen, obs): (Seen, Obs) = self.observe(s, true, &[C12], move |m| {
            let b = m.raw_entry();
            let r = match how {
                RawHow::FromKey => b.from_key(&q),
                RawHow::FromKeyHashedNocheck => b.from_key_hashed_nocheck(hash, &q),
                RawHow::FromHash => b.from_hash(hash, |k| {
                    tick(K_EQ, (k.k(), k.id()), (kk, 0));
                    k.k() == kk
                }),
            };
            r.map(|(k, v)| {
                k.check("raw_entry");
                (k.k(), k.id(), v.v(), v.id())
            })
        })?;
        let ok = match (seen, present) {
            (None, None) => true,
            (Some((gk, gkid, gv, gvid)), Some(me)) => gk == kk && gkid == me.kid && gv == me.v && gvid == me.vid,
            _ => false,
        };
        if !ok {
            fail!(self, [C01, C12], "raw-lookup-return", "raw_entry().{:?}({}) returned {:?}, reference entry is {:?}", how, kk, seen, present);
        }
        let mut f = Facts::point(kk);
        f.zero_hash_lookup = how != RawHow::FromKey;
        self.judge(s, &obs, &f)?;
        self.after_op(s, &[C01, C12], false)
    }

    fn do_chain(&mut self, s: usize, kk: u32, raw: Option<RawHow>, chain: &Chain) -> Result<(), Fail> {
        let probe = self.probe_next.take();
        // the lookup for another key is made by precomputed hash (the harness computes it), so
        // that the only key object hashed by the call is the one that is inserted
        let raw = match (raw, probe) {
            (Some(RawHow::FromKey), Some(_)) => Some(RawHow::FromKeyHashedNocheck),
            (r, _) => r,
        };
        let present = self.slots[s].model.get(&kk).copied();
        let loc = if present.is_some() { self.in_old(s, kk) } else { None };
        self.note_loc(present.is_some(), loc);
        let pre = self.st(s);
        if loc == Some(true) {
            self.nt(C12);
            if pre.hook.old.map_or(0, |o| o.buckets) >= 32 {
                self.stats.old32_chain += 1;
            }
        }
        let mut sim = Sim {
            k: kk,
            cur: present,
            in_old: loc == Some(true),
            errs: Vec::with_capacity(8),
            added: false,
            adds: 0,
            removed_from_old: 0,
            removed_from_main: 0,
            lingering: false,
            new_kid: 0,
            vac_kid: 0,
            replaced_in_old: false,
            vh: self.meta[s].vh,
            probe,
        };
        let key = F::K::mk(kk);
        let q = if raw.is_some() { Some(F::K::mk(probe.unwrap_or(kk))) } else { None };
        let simref = &mut sim;
        let (_, obs) = self.observe(s, true, &[C12], move |m| match raw {
            None => run_entry::<F>(m, key, chain, simref),
            Some(how) => run_raw::<F>(m, q.unwrap(), key, how, chain, simref),
        })?;
        if !sim.errs.is_empty() {
            return Err(self.mkfail(vec![C01, C12], "entry-chain", sim.errs.join("; "), String::new()));
        }
        match sim.cur {
            Some(me) => {
                self.slots[s].model.insert(kk, me);
            }
            None => {
                self.slots[s].model.remove(&kk);
            }
        }
        if sim.replaced_in_old {
            self.nt(C17);
        }
        if sim.added && !pre.old_present() && obs.post.old_present() {
            // the inserting step of this chain started a resize
            self.nt(C12);
        }
        let mut f = Facts::point(kk);
        f.added = sim.added;
        f.adds = sim.adds.max(1);
        f.removed_from_old = sim.removed_from_old;
        f.removed_lingering = sim.lingering;
        f.removed_from_main = sim.removed_from_main;
        if sim.removed_from_old > 0 && !sim.lingering {
            self.nt(C06);
        }
        // a raw lookup by precomputed hash does not hash the query key
        f.zero_hash_lookup = matches!(raw, Some(RawHow::FromHash) | Some(RawHow::FromKeyHashedNocheck));
        self.judge(s, &obs, &f)
    }

    // -----------------------------------------------------------------------------------------
    // capacity management (C10)
    // -----------------------------------------------------------------------------------------

    fn follow_inserts(&mut self, s: usize, n: usize, what: &'static str) -> Result<(), Fail> {
        let lim = if self.big { 20_000 } else { 4096 };
        let lim = lim.min(self.len_cap(s).saturating_sub(self.slots[s].model.len()));
        let total = n.min(lim);
        let mut i = 0usize;
        while i < total {
            // "the next n new keys are inserted without reallocation" holds for every inserting
            // route, not only `insert`
            match (i + n) % 5 {
                1 => {
                    let kk = self.fresh_key();
                    self.insert_fresh_via(s, kk, i as u32, 1, (C10, what))?;
                    i += 1;
                }
                2 => {
                    let kk = self.fresh_key();
                    self.insert_fresh_via(s, kk, i as u32, 2, (C10, what))?;
                    i += 1;
                }
                3 => {
                    // ... nor for `extend` from a source whose size hint is (0, Some(large)): a few
                    // new keys out of many candidates that a filter rejects
                    let b = (total - i).min(3);
                    self.extend_fresh_filtered(s, b, (C10, what))?;
                    i += b;
                }
                _ => {
                    let kk = self.fresh_key();
                    self.do_insert(s, kk, i as u32, Some((C10, what)))?;
                    i += 1;
                }
            }
        }
        Ok(())
    }

    /// `extend` with `b` new keys that pass a filter among many candidates that do not (the
    /// source's size hint is (0, Some(b + pad))); an allocation is a failure of `no_alloc`
    fn extend_fresh_filtered(&mut self, s: usize, b: usize, no_alloc: (Prop, &'static str)) -> Result<(), Fail> {
        let st = self.st(s);
        let pad = (2 * st.cap + 8).min(600);
        let mut objs: Vec<(F::K, F::V)> = Vec::with_capacity(b + pad);
        let mut added: Vec<(u32, ME)> = Vec::with_capacity(b);
        for j in 0..b + pad {
            let kk = self.fresh_key();
            let (k, v) = (F::K::mk(kk), F::V::mk(j as u32));
            if j % (pad / b.max(1) + 1) == 0 && added.len() < b {
                added.push((kk, ME { kid: k.id(), v: j as u32, vid: v.id() }));
            }
            objs.push((k, v));
        }
        let keep: std::collections::BTreeSet<u32> = added.iter().map(|x| x.0).collect();
        let n_add = added.len();
        let objs_ref = &mut objs;
        let keep_ref = &keep;
        let (_, obs) = self.observe(s, true, &[], move |m| {
            m.extend(objs_ref.drain(..).filter(|(k, _)| keep_ref.contains(&k.k())));
        })?;
        drop(objs);
        for (kk, me) in added {
            self.slots[s].model.insert(kk, me);
        }
        let mut f = Facts::of(Kind::Extend(n_add));
        f.listed = true;
        self.judge(s, &obs, &f)?;
        if obs.alloc.allocs != 0 {
            return Err(self.mkfail(vec![no_alloc.0], no_alloc.1, format!("extend of {} new keys (filtered out of {} candidates) allocated {} time(s) although room had been promised (len {} capacity {})", n_add, b + pad, obs.alloc.allocs, obs.pre.len, obs.pre.cap), String::new()));
        }
        Ok(())
    }

    /// inserts the absent key `kk` through `entry(k).or_insert(v)` (route 1) or
    /// `raw_entry_mut().from_key(&k).or_insert(k, v)` (route 2); an allocation is a failure of
    /// `no_alloc`
    fn insert_fresh_via(&mut self, s: usize, kk: u32, v: u32, route: u8, no_alloc: (Prop, &'static str)) -> Result<(), Fail> {
        if self.slots[s].model.contains_key(&kk) {
            self.do_insert(s, kk, v, Some(no_alloc))?;
            return Ok(());
        }
        self.note_loc(false, None);
        let key = F::K::mk(kk);
        let q = F::K::mk(kk);
        let val = F::V::mk(v);
        let (kid, vid) = (key.id(), val.id());
        let (got, obs) = self.observe(s, true, &[C12], move |m| {
            if route == 1 {
                let r = m.entry(key).or_insert(val);
                (r.v(), r.id())
            } else {
                let (k, r) = m.raw_entry_mut().from_key(&q).or_insert(key, val);
                let _ = k.k();
                (r.v(), r.id())
            }
        })?;
        if got != (v, vid) {
            fail!(self, [C01, C12], "entry-return", "inserting the new key {} through {} returned a reference to value {:?}, stored {:?}", kk, if route == 1 { "entry().or_insert" } else { "raw_entry_mut().from_key().or_insert" }, got, (v, vid));
        }
        self.slots[s].model.insert(kk, ME { kid, v, vid });
        let mut f = Facts::point(kk);
        f.added = true;
        self.judge(s, &obs, &f)?;
        if obs.alloc.allocs != 0 {
            return Err(self.mkfail(vec![no_alloc.0], no_alloc.1, format!("an entry insertion allocated {} time(s) although room had been promised (len {} capacity {})", obs.alloc.allocs, obs.pre.len, obs.pre.cap), String::new()));
        }
        Ok(())
    }

    fn do_reserve(&mut self, s: usize, n: CapArg, follow: bool, fallible: bool) -> Result<(), Fail> {
        let add = self.resolve_cap(s, n);
        let huge = matches!(n, CapArg::Huge(_));
        let pre = self.st(s);
        if pre.l() > 0 || !matches!(n, CapArg::Small(_) | CapArg::Medium(_)) {
            self.nt(C10);
        }
        if huge {
            self.nt(C17);
        }
        // every third try_reserve runs against an allocation limit: no table larger than the
        // current main table can be allocated ("exceeds the allocation limit": Err, contents
        // unchanged; or Ok with everything an Ok promises)
        let limited = fallible && !huge && (add ^ self.op_index) % 3 == 0;
        if limited {
            self.nt(C10);
            let b = pre.hook.main_buckets;
            let elem = std::mem::size_of::<(F::K, F::V)>();
            let bytes = if b <= 1 { 0 } else { ((elem * b + 15) & !15) + b + 16 };
            alloc_fail_above(bytes + 1);
        }
        let _disarm = AllocLimit;
        let (r, obs) = self.observe_raw(s, move |m| {
            if fallible {
                m.try_reserve(add).map_err(|e| matches!(e, griddle::TryReserveError::CapacityOverflow))
            } else {
                m.reserve(add);
                Ok(())
            }
        });
        let refused = alloc_fail_take();
        let mut f = Facts::of(Kind::Reserve);
        match r {
            Ok(Ok(())) => {
                if huge {
                    fail!(self, [C10], "huge-reserve-returned",
                        "{}({:#x}) returned normally with len {}: nothing can have been reserved (capacity {} -> {})",
                        self.op_name, add, pre.len, pre.cap, obs.post.cap);
                }
                if obs.post.cap < obs.post.len + add {
                    fail!(self, [C10], "reserve-postcondition",
                        "after {}({}) capacity() = {} < len() + n = {}", self.op_name, add, obs.post.cap, obs.post.len + add);
                }
                self.judge(s, &obs, &f)?;
                self.after_op(s, &[C10, C01], true)?;
                if follow {
                    self.follow_inserts(s, add, "alloc-after-reserve")?;
                    self.after_op(s, &[C01], false)?;
                }
                Ok(())
            }
            Ok(Err(e)) => {
                if !huge && !(limited && refused > 0 && !e) {
                    fail!(self, [C10], "try-reserve-err", "try_reserve({}) failed (capacity overflow: {}) on a map of {} elements ({} allocations were refused)", add, e, pre.len, refused);
                }
                if obs.post.len != pre.len {
                    fail!(self, [C10], "try-reserve-err-changed", "a failed try_reserve changed len() from {} to {}", pre.len, obs.post.len);
                }
                f.kind = Kind::Exempt;
                self.judge(s, &obs, &f)?;
                // contents unchanged
                self.after_op(s, &[C10], true)
            }
            Err(p) => {
                if fallible {
                    let mut fl = self.unexpected_panic(&p, &obs.pre, false, &[C10]);
                    fl.oracle = "try-reserve-panicked";
                    return Err(fl);
                }
                if !huge {
                    return Err(self.unexpected_panic(&p, &obs.pre, false, &[C10]));
                }
                // documented: panics if the new allocation size overflows usize. The map must still
                // be consistent.
                f.kind = Kind::Exempt;
                self.judge(s, &obs, &f)?;
                self.after_op(s, &[C10], true)
            }
        }
    }

    fn do_shrink(&mut self, s: usize, m: Option<CapArg>) -> Result<(), Fail> {
        let min = m.map(|a| self.resolve_cap(s, a));
        let pre = self.st(s);
        if pre.l() > 0 || matches!(m, Some(CapArg::AroundLen(_)) | Some(CapArg::AroundHeadroom(_)) | Some(CapArg::AroundFree(_)) | Some(CapArg::Huge(_))) {
            self.nt(C10);
        }
        let (_, obs) = self.observe(s, false, &[C10], move |mp| match min {
            Some(x) => mp.shrink_to(x),
            None => mp.shrink_to_fit(),
        })?;
        let post = obs.post;
        if post.hook.main_buckets > pre.hook.main_buckets {
            fail!(self, [C10], "shrink-enlarged", "shrink grew the table from {} to {} buckets", pre.hook.main_buckets, post.hook.main_buckets);
        }
        let floor = post.len.max(min.unwrap_or(0).min(pre.cap));
        if post.cap < floor {
            fail!(self, [C10], "shrink-postcondition",
                "after {}({:?}) capacity() = {} < max(len {}, min(m, previous capacity {}))", self.op_name, min, post.cap, post.len, pre.cap);
        }
        let f = Facts::of(Kind::Shrink);
        self.judge(s, &obs, &f)?;
        self.after_op(s, &[C10], true)
    }

    fn do_with_capacity(&mut self, s: usize, n: CapArg, follow: bool, hasher: Option<(HMode, u64)>) -> Result<(), Fail> {
        let cap = match n {
            CapArg::Huge(i) => resolve_huge(i),
            CapArg::Medium(x) => x as usize,
            CapArg::Small(x) => x as usize,
            CapArg::AroundFree(x) | CapArg::AroundLen(x) | CapArg::AroundHeadroom(x) => (x as i64 + 130) as usize,
        };
        let huge = matches!(n, CapArg::Huge(_));
        let vh = match hasher {
            Some((mode, seed)) => VH { mode, seed },
            None => self.meta[s].vh,
        };
        if huge {
            self.nt(C10);
            self.nt(C17);
        }
        let prevq = panic_quiet(true);
        let (r, a) = window(|| std::panic::catch_unwind(move || Map::<F>::with_capacity_and_hasher(cap, vh)));
        panic_quiet(prevq);
        match r {
            Err(_) => {
                let (msg, loc) = take_last_panic().unwrap_or_default();
                if !huge {
                    fail!(self, [C10], "with-capacity-panicked", "with_capacity({}) panicked: {} at {}", cap, msg, norm_loc(&loc));
                }
                Ok(())
            }
            Ok(newmap) => {
                if huge {
                    fail!(self, [C10], "huge-with-capacity-returned", "with_capacity({:#x}) returned normally", cap);
                }
                if newmap.capacity() < cap {
                    fail!(self, [C10], "with-capacity-postcondition", "with_capacity({}) gave capacity() = {}", cap, newmap.capacity());
                }
                self.replace_map(s, newmap, vh, a.allocs as i64 - a.deallocs as i64)?;
                if cap <= 2048 {
                    self.default_builder_constructors(cap)?;
                }
                if follow {
                    self.nt(C10);
                    self.follow_inserts(s, cap, "alloc-after-with-capacity")?;
                }
                self.after_op(s, &[C01, C10], true)
            }
        }
    }

    /// `new()` and `with_capacity(n)` of map and set with the default hash builder (the only
    /// constructors that do not take a hasher): capacity, and n insertions without reallocation
    fn default_builder_constructors(&mut self, cap: usize) -> Result<(), Fail> {
        let prevq = panic_quiet(true);
        let (r, a) = window(|| {
            std::panic::catch_unwind(move || {
                let m = griddle::HashMap::<u32, u32>::with_capacity(cap);
                let st = griddle::HashSet::<u32>::with_capacity(cap);
                let m0 = griddle::HashMap::<u32, u32>::new();
                let s0 = griddle::HashSet::<u32>::new();
                (m, st, m0, s0)
            })
        });
        panic_quiet(prevq);
        let (mut m, mut st, mut m0, mut s0) = match r {
            Ok(x) => x,
            Err(_) => {
                let (msg, loc) = take_last_panic().unwrap_or_default();
                fail!(self, [C10], "with-capacity-panicked", "with_capacity({}) / new() with the default hash builder panicked: {} at {}", cap, msg, norm_loc(&loc));
            }
        };
        if m.capacity() < cap || st.capacity() < cap || m0.capacity() != 0 || s0.capacity() != 0 || a.allocs > 2 {
            fail!(self, [C10], "with-capacity-postcondition", "default hash builder: with_capacity({}) gave capacity() = {} (map) / {} (set), new() gave {} / {}, {} allocations", cap, m.capacity(), st.capacity(), m0.capacity(), s0.capacity(), a.allocs);
        }
        let (c_m, c_s) = (m.capacity(), st.capacity());
        let prevq = panic_quiet(true);
        let (r, a) = window(|| {
            std::panic::catch_unwind(std::panic::AssertUnwindSafe(|| {
                for i in 0..cap as u32 {
                    m.insert(i.wrapping_mul(2_654_435_761), i);
                    st.insert(i.wrapping_mul(2_654_435_761));
                }
            }))
        });
        panic_quiet(prevq);
        if r.is_err() || a.allocs != 0 || m.len() != cap || st.len() != cap || m.capacity() != c_m || st.capacity() != c_s {
            fail!(self, [C10], "alloc-after-with-capacity", "default hash builder: {} insertions after with_capacity({}) made {} allocation(s) (panicked: {}); len {} / {}, capacity {} -> {} / {} -> {}", cap, cap, a.allocs, r.is_err(), m.len(), st.len(), c_m, m.capacity(), c_s, st.capacity());
        }
        m0.insert(1, 1);
        s0.insert(1);
        if m0.get(&1) != Some(&1) || !s0.contains(&1) || m0.len() != 1 || s0.len() != 1 {
            fail!(self, [C10, C01], "new-unusable", "a collection made by new() does not hold what was inserted");
        }
        Ok(())
    }

    /// installs a new map in slot `s`; the previous one is dropped inside a window
    pub fn replace_map(&mut self, s: usize, newmap: Map<F>, vh: VH, new_live: i64) -> Result<(), Fail> {
        let old = std::mem::replace(&mut self.slots[s].map, newmap);
        let prevq = panic_quiet(true);
        let (r, a) = window(|| std::panic::catch_unwind(std::panic::AssertUnwindSafe(move || drop(old))));
        panic_quiet(prevq);
        if r.is_err() {
            let (msg, loc) = take_last_panic().unwrap_or_default();
            fail!(self, [C06, C05], "drop-panicked", "dropping a map panicked: {} at {}", msg, norm_loc(&loc));
        }
        let live = self.meta[s].live + a.allocs as i64 - a.deallocs as i64;
        if live != 0 {
            fail!(self, [C06], "tables-alive-after-drop", "{} table allocation(s) still alive after the map was dropped", live);
        }
        self.slots[s].model.clear();
        self.meta[s] = Meta::new(vh, new_live);
        self.ledger_check(&[C06])
    }

    // -----------------------------------------------------------------------------------------
    // steering
    // -----------------------------------------------------------------------------------------

    fn do_fill(&mut self, s: usize, and_one_more: bool) -> Result<(), Fail> {
        let lim = if self.big { 300_000 } else { 40_000 };
        let lcap = self.len_cap(s);
        if self.slots[s].model.len() >= lcap {
            return Ok(());
        }
        let mut guard = 0;
        let mut capped = false;
        loop {
            let st = self.st(s);
            if st.len >= st.cap || guard >= lim {
                break;
            }
            if st.len >= lcap {
                capped = true;
                break;
            }
            let kk = self.fresh_key();
            self.do_insert(s, kk, 1, None)?;
            guard += 1;
        }
        if and_one_more && guard < lim && !capped {
            let kk = self.fresh_key();
            self.do_insert(s, kk, 2, None)?;
        }
        self.after_op(s, &[C01], false)
    }

    fn do_churn(&mut self, s: usize, remove_pct: u8) -> Result<(), Fail> {
        self.do_fill(s, false)?;
        let pct = (remove_pct as usize % 101).max(1);
        let keys: Vec<u32> = self.slots[s].model.keys().copied().collect();
        let n = keys.len() * pct / 100;
        for kk in keys.into_iter().take(n) {
            self.do_remove(s, kk, false)?;
        }
        self.after_op(s, &[C01], false)
    }

    /// C04: insert capacity()-len() previously unseen keys.
    fn do_probe(&mut self, s: usize) -> Result<(), Fail> {
        let st0 = self.st(s);
        let n = st0.cap.saturating_sub(st0.len);
        let lim = if self.big { 300_000 } else { 40_000 };
        if n > lim || st0.cap > self.len_cap(s).saturating_mul(2) {
            return Ok(());
        }
        self.stats.probes += 1;
        if st0.l() > 0 {
            self.stats.probes_at_l += 1;
            self.nt(C04);
        }
        let mut last_cap = st0.cap;
        for i in 0..n {
            let kk = self.fresh_key();
            let obs = match self.do_insert(s, kk, 3, Some((C04, "probe-allocated"))) {
                Ok(o) => o,
                Err(mut fl) => {
                    if fl.oracle == "unexpected-panic" && !fl.tags.contains(&C04) && !self.post_fault {
                        fl.tags.push(C04);
                    }
                    return Err(fl);
                }
            };
            if obs.post.cap < last_cap {
                fail!(self, [C04], "probe-capacity-decreased", "capacity() went from {} to {} during insertion {} of {} previously unseen keys", last_cap, obs.post.cap, i + 1, n);
            }
            last_cap = obs.post.cap;
        }
        if n > 0 {
            let st = self.st(s);
            if st.old_present() || self.meta[s].live > 1 {
                fail!(self, [C04], "probe-resize-pending",
                    "after inserting capacity()-len() = {} unseen keys a resize is still pending ({} elements in the old table, {} table allocations)",
                    n, st.l(), self.meta[s].live);
            }
        }
        self.after_op(s, &[C01], false)
    }

    // -----------------------------------------------------------------------------------------
    // extend / from_iter
    // -----------------------------------------------------------------------------------------

    fn build_items(&mut self, s: usize, items: &[(KeySel, u32)]) -> (Vec<(F::K, F::V)>, Vec<(u32, u32, u32, u32)>) {
        let mut objs = Vec::with_capacity(items.len());
        let mut desc = Vec::with_capacity(items.len());
        for (sel, v) in items {
            let kk = self.resolve(s, *sel);
            let k = F::K::mk(kk);
            let val = F::V::mk(*v);
            desc.push((kk, k.id(), *v, val.id()));
            legit_push(kk, ME { kid: k.id(), v: *v, vid: val.id() });
            objs.push((k, val));
        }
        (objs, desc)
    }

    fn apply_items(model: &mut Model, desc: &[(u32, u32, u32, u32)]) {
        for &(kk, kid, v, vid) in desc {
            match model.get_mut(&kk) {
                Some(me) => {
                    me.v = v;
                    me.vid = vid;
                }
                None => {
                    model.insert(kk, ME { kid, v, vid });
                }
            }
        }
    }

    fn do_extend(&mut self, s: usize, items: &[(KeySel, u32)], by_ref: bool) -> Result<(), Fail> {
        let (mut objs, desc) = self.build_items(s, items);
        let n = objs.len();
        let split_before = self.st(s).old_present();
        // the vector's buffer stays alive outside the window: only table allocations are counted
        let objs_ref = &mut objs;
        // hash computations done so far, noted every time `extend` pulls an item from the source
        let mut marks: Vec<usize> = Vec::with_capacity(n + 2);
        let marks_ref = &mut marks;
        let mut probed = false;
        let probed_ref = &mut probed;
        let (_, obs) = self.observe(s, true, &[], move |m| {
            if by_ref && F::extend_ref(m, objs_ref) {
                return;
            }
            *probed_ref = true;
            let objs_ref = Probe(objs_ref.drain(..), marks_ref);
            // the source's size hint is exact, (0, Some(n)) or (0, None) in turn: all legal, and the
            // up-front reserve of `extend` depends on it
            // ... or wrong (an "exact" hint that is too small or too large: incorrect hints are
            // allowed and must not lead to anything worse than a wrong reservation)
            match n % 5 {
                0 => m.extend(objs_ref),
                1 => m.extend(objs_ref.filter(|_| true)),
                2 => m.extend(NoHint(objs_ref)),
                3 => m.extend(WrongHint(objs_ref, n.saturating_sub(2))),
                _ => m.extend(WrongHint(objs_ref, n + 3)),
            }
        })?;
        drop(objs);
        if probed && marks.len() == n + 1 {
            // C02 per item: the up-front reserve of `extend` re-hashes nothing unless the map was
            // already mid-resize, and every item is one key-adding call (<= R + 2 hash computations)
            let r = self.r;
            if !split_before && marks[0] != 0 {
                fail!(self, [C02], "work-before-first-item", "extend on a map that was not mid-resize did {} hash computations before it pulled the first item", marks[0]);
            }
            for i in 0..n {
                let d = marks[i + 1] - marks[i];
                if d > r + 2 {
                    fail!(self, [C02], "hash-bound-extend-item", "extend: inserting item {} of {} did {} hash computations (bound R + 2 = {})", i, n, d, r + 2);
                }
            }
        }
        Self::apply_items(&mut self.slots[s].model, &desc);
        let mut f = Facts::of(Kind::Extend(n));
        f.listed = true;
        self.judge(s, &obs, &f)?;
        self.after_op(s, &[C01], true)
    }

    fn do_from_iter(&mut self, s: usize, items: &[(KeySel, u32)]) -> Result<(), Fail> {
        let (mut objs, desc) = self.build_items(s, items);
        let prevq = panic_quiet(true);
        let objs_ref = &mut objs;
        let (r, a) = window(|| std::panic::catch_unwind(std::panic::AssertUnwindSafe(move || objs_ref.drain(..).collect::<Map<F>>())));
        panic_quiet(prevq);
        drop(objs);
        let newmap = match r {
            Ok(m) => m,
            Err(_) => {
                let (msg, loc) = take_last_panic().unwrap_or_default();
                fail!(self, [C01], "from-iter-panicked", "from_iter panicked: {} at {}", msg, norm_loc(&loc));
            }
        };
        // a collected map hashes with its own `S::default()` instance
        let vh = *newmap.hasher();
        self.replace_map(s, newmap, vh, a.allocs as i64 - a.deallocs as i64)?;
        Self::apply_items(&mut self.slots[s].model, &desc);
        self.after_op(s, &[C01], true)
    }

    // -----------------------------------------------------------------------------------------
    // clone / clone_from / == / Debug
    // -----------------------------------------------------------------------------------------

    fn do_clone(&mut self, dst: usize, src: usize, from: bool) -> Result<(), Fail> {
        if dst == src {
            // clone into a temporary, compare, drop
            return self.do_clone_temp(src);
        }
        let spre = self.st(src);
        let dpre = self.st(dst);
        if spre.l() > 0 || (from && dpre.l() > 0) || self.meta[src].vh != self.meta[dst].vh {
            self.nt(C11);
        }
        if spre.l() > 0 {
            self.nt(C06);
        }
        let src_ids: BTreeSet<u32> = self.slots[src].model.values().flat_map(|e| [e.kid, e.vid]).collect();
        let src_vh = self.meta[src].vh;
        if from {
            let (a, b) = self.slots.split_at_mut(1);
            let (d, sref) = if dst == 0 { (&mut a[0], &b[0]) } else { (&mut b[0], &a[0]) };
            let prevq = panic_quiet(true);
            let _ = take_last_panic();
            hlog_start();
            let dmap = &mut d.map;
            let smap = &sref.map;
            let armed = self.arm.is_some();
            let (r, al) = window(|| fcall(armed, || dmap.clone_from(smap)));
            let _ = hlog_stop();
            panic_quiet(prevq);
            self.meta[dst].live += al.allocs as i64 - al.deallocs as i64;
            if r.is_err() {
                let (msg, loc) = take_last_panic().unwrap_or_default();
                let p = PanicInfo { msg, loc: norm_loc(&loc) };
                return Err(self.unexpected_panic(&p, &dpre, false, &[C11]));
            }
        } else {
            let prevq = panic_quiet(true);
            let _ = take_last_panic();
            let smap = &self.slots[src].map;
            let armed = self.arm.is_some();
            let (r, al) = window(|| fcall(armed, || smap.clone()));
            panic_quiet(prevq);
            let c = match r {
                Ok(c) => c,
                Err(_) => {
                    let (msg, loc) = take_last_panic().unwrap_or_default();
                    let p = PanicInfo { msg, loc: norm_loc(&loc) };
                    return Err(self.unexpected_panic(&p, &spre, false, &[C11]));
                }
            };
            self.replace_map(dst, c, src_vh, al.allocs as i64 - al.deallocs as i64)?;
        }
        // the destination hashes with (a clone of) the source's hasher from now on, whatever the
        // contents were - `hasher()` shows it
        if *self.slots[dst].map.hasher() != src_vh {
            fail!(self, [C11], "clone-hasher", "after {} the destination's hasher() is {:?}, the source's is {:?}", if from { "clone_from" } else { "clone" }, self.slots[dst].map.hasher(), src_vh);
        }
        // destination state bookkeeping
        {
            let live = self.meta[dst].live;
            self.meta[dst] = Meta::new(src_vh, live);
        }
        let dpost = self.st(dst);
        if dpost.hook.old.map_or(false, |o| o.cursor_remaining != o.len) {
            fail!(self, [C05], "cursor-desync", "cursor desync in clone destination");
        }
        if dpost.cap < dpost.len {
            fail!(self, [C04, C11], "capacity-below-len", "clone destination: capacity() = {} < len() = {}", dpost.cap, dpost.len);
        }
        if self.meta[dst].live > 2 || (self.meta[dst].live > 1 && !dpost.old_present()) {
            fail!(self, [C03, C06], "table-leak", "clone destination owns {} table allocations", self.meta[dst].live);
        }
        // contents of the destination: same (key, value) pairs, all-new objects
        let actual = self.actual_contents(dst);
        let want: Vec<(u32, u32)> = self.slots[src].model.iter().map(|(k, e)| (*k, e.v)).collect();
        let got: Vec<(u32, u32)> = actual.iter().map(|(k, e)| (*k, e.v)).collect();
        if got != want {
            fail!(self, [C11], "clone-contents", "{} produced {} pairs, source has {}; first differences: got {:?} want {:?}",
                self.op_name, got.len(), want.len(),
                got.iter().filter(|x| !want.contains(x)).take(3).collect::<Vec<_>>(),
                want.iter().filter(|x| !got.contains(x)).take(3).collect::<Vec<_>>());
        }
        if F::K::TRACKED {
            for (k, e) in &actual {
                if src_ids.contains(&e.kid) || src_ids.contains(&e.vid) {
                    fail!(self, [C11, C06], "clone-shares-objects", "clone holds the very same object as the source for key {}", k);
                }
            }
        }
        self.slots[dst].model = actual.into_iter().collect::<BTreeMap<u32, ME>>();
        // equal under ==, both ways
        let eq1 = self.slots[0].map == self.slots[1].map;
        let eq2 = self.slots[1].map == self.slots[0].map;
        if !eq1 || !eq2 {
            // also C14: == must be symmetric and hold for equal contents whatever the hasher state
            fail!(self, [C11, C14], "clone-not-equal", "source == clone: {}, clone == source: {}", eq1, eq2);
        }
        // source unchanged (identities), destination fully consistent with the adopted hasher
        // (lookups that fail for present keys also violate C14)
        self.full_check(src, &[C11])?;
        self.full_check(dst, &[C11, C14])?;
        let spost = self.st(src);
        if spost.hook != spre.hook {
            fail!(self, [C11], "clone-changed-source", "the source's tables changed during {}: {:?} -> {:?}", self.op_name, spre.hook, spost.hook);
        }
        Ok(())
    }

    fn do_clone_temp(&mut self, src: usize) -> Result<(), Fail> {
        let spre = self.st(src);
        if spre.l() > 0 {
            self.nt(C11);
            self.nt(C06);
        }
        let prevq = panic_quiet(true);
        let smap = &self.slots[src].map;
        let armed = self.arm.is_some();
            let (r, al) = window(|| fcall(armed, || smap.clone()));
        panic_quiet(prevq);
        let c = match r {
            Ok(c) => c,
            Err(_) => {
                let (msg, loc) = take_last_panic().unwrap_or_default();
                let p = PanicInfo { msg, loc: norm_loc(&loc) };
                return Err(self.unexpected_panic(&p, &spre, false, &[C11]));
            }
        };
        let mut got: Vec<(u32, u32)> = c.iter().map(|(k, v)| (k.k(), v.v())).collect();
        got.sort_unstable();
        let want: Vec<(u32, u32)> = self.slots[src].model.iter().map(|(k, e)| (*k, e.v)).collect();
        if got != want {
            fail!(self, [C11], "clone-contents", "clone produced {} pairs, source has {}", got.len(), want.len());
        }
        let eq = c == self.slots[src].map && self.slots[src].map == c;
        if !eq {
            fail!(self, [C11], "clone-not-equal", "clone != source");
        }
        let (_, dl) = window(move || drop(c));
        let live = al.allocs as i64 - al.deallocs as i64 + dl.allocs as i64 - dl.deallocs as i64;
        if live != 0 {
            fail!(self, [C06], "tables-alive-after-drop", "{} table allocation(s) of a dropped clone still alive", live);
        }
        self.full_check(src, &[C11])
    }

    fn do_eq_check(&mut self) -> Result<(), Fail> {
        let want = {
            let a: Vec<(u32, u32)> = self.slots[0].model.iter().map(|(k, e)| (*k, e.v)).collect();
            let b: Vec<(u32, u32)> = self.slots[1].model.iter().map(|(k, e)| (*k, e.v)).collect();
            a == b
        };
        let armed = self.arm.is_some();
        let prevq = panic_quiet(true);
        let r = {
            let (a, b) = (&self.slots[0].map, &self.slots[1].map);
            fcall(armed, || (*a == *b, *b == *a, *a == *a, *b == *b))
        };
        panic_quiet(prevq);
        let (ab, ba, aa, bb) = match r {
            Ok(x) => x,
            Err(_) => {
                let (msg, loc) = take_last_panic().unwrap_or_default();
                fail!(self, [C14], "unexpected-panic", "== panicked: {} at {}", msg, norm_loc(&loc));
            }
        };
        if ab != want || ba != want || !aa || !bb {
            fail!(self, [C14], "eq", "a==b: {}, b==a: {}, a==a: {}, b==b: {}; references equal: {}", ab, ba, aa, bb, want);
        }
        let (p0, p1) = (self.st(0), self.st(1));
        if want && (p0.old_present() != p1.old_present() || p0.hook.main_buckets != p1.hook.main_buckets) {
            self.nt(C14);
        }
        if want {
            let (e0, e1) = (self.slots[0].map.is_empty(), self.slots[1].map.is_empty());
            if e0 != e1 || p0.len != p1.len {
                fail!(self, [C14], "eq-but-distinguishable", "two maps with the same contents report is_empty() {} / {} and len() {} / {}", e0, e1, p0.len, p1.len);
            }
        }
        self.ledger_check(&[])
    }

    fn do_cross_get(&mut self) -> Result<(), Fail> {
        let keys: BTreeSet<u32> = self.slots[0].model.keys().chain(self.slots[1].model.keys()).copied().collect();
        for k in keys.into_iter().chain([u32::MAX - 3, 4099, 0]) {
            if self.probe_key.k() != k {
                self.probe_key = F::K::mk(k);
            }
            let a = self.slots[0].map.get(&self.probe_key).map(|v| v.v());
            let b = self.slots[1].map.get(&self.probe_key).map(|v| v.v());
            let ma = self.slots[0].model.get(&k).map(|e| e.v);
            let mb = self.slots[1].model.get(&k).map(|e| e.v);
            if (a == b) != (ma == mb) || a != ma || b != mb {
                fail!(self, [C14], "cross-get", "get({}) gives {:?} / {:?}; the references hold {:?} / {:?}", k, a, b, ma, mb);
            }
            let ca = self.slots[0].map.contains_key(&self.probe_key);
            let cb = self.slots[1].map.contains_key(&self.probe_key);
            if ca != ma.is_some() || cb != mb.is_some() {
                fail!(self, [C14], "cross-get", "contains_key({}) gives {} / {}; the references hold {:?} / {:?}", k, ca, cb, ma, mb);
            }
        }
        Ok(())
    }

    fn do_debug_check(&mut self, s: usize) -> Result<(), Fail> {
        let txt = format!("{:?}", self.slots[s].map);
        let mut got = parse_debug_map(&txt);
        got.sort_unstable();
        let want: Vec<(u32, u32)> = self.slots[s].model.iter().map(|(k, e)| (*k, e.v)).collect();
        if got != want {
            fail!(self, [C14], "debug-output", "Debug output lists {} entries, reference has {}", got.len(), want.len());
        }
        Ok(())
    }
}

/// parses `{PK(1): PV(2), TK(3): TV(4)}`
pub fn parse_debug_map(txt: &str) -> Vec<(u32, u32)> {
    let nums: Vec<u32> = txt
        .split(|c: char| !c.is_ascii_digit())
        .filter(|t| !t.is_empty())
        .filter_map(|t| t.parse().ok())
        .collect();
    nums.chunks(2).filter(|c| c.len() == 2).map(|c| (c[0], c[1])).collect()
}

/// the five lookups, through `&K` or through a borrowed form `&Q`
fn lookup_with<F: Fam, Q>(m: &mut Map<F>, q: &Q, which: u8, w: Option<u32>, kk: u32) -> Result<Seen, bool>
where
    F::K: std::borrow::Borrow<Q>,
    Q: std::hash::Hash + Eq + ?Sized,
{
    match which {
        0 => Ok(m.get(q).map(|v| (kk, 0, v.v(), v.id()))),
        1 => Ok(m.get_mut(q).map(|v| {
            let r = (kk, 0, v.v(), v.id());
            if let Some(w) = w {
                v.set(w);
            }
            r
        })),
        2 => Ok(m.get_key_value(q).map(|(k, v)| {
            k.check("get_key_value");
            (k.k(), k.id(), v.v(), v.id())
        })),
        3 => Ok(m.get_key_value_mut(q).map(|(k, v)| {
            k.check("get_key_value_mut");
            let r = (k.k(), k.id(), v.v(), v.id());
            if let Some(w) = w {
                v.set(w);
            }
            r
        })),
        _ => Err(m.contains_key(q)),
    }
}

/// an iterator adaptor that claims an exact length it does not have
pub struct WrongHint<I>(pub I, pub usize);
impl<I: Iterator> Iterator for WrongHint<I> {
    type Item = I::Item;
    fn next(&mut self) -> Option<I::Item> {
        self.0.next()
    }
    fn size_hint(&self) -> (usize, Option<usize>) {
        (self.1, Some(self.1))
    }
}

/// an iterator adaptor that reports the least informative legal size hint
pub struct NoHint<I>(pub I);
impl<I: Iterator> Iterator for NoHint<I> {
    type Item = I::Item;
    fn next(&mut self) -> Option<I::Item> {
        self.0.next()
    }
    fn size_hint(&self) -> (usize, Option<usize>) {
        (0, None)
    }
}

/// notes the length of the hash log every time an item is pulled (and when the source ends)
pub struct Probe<'a, I>(pub I, pub &'a mut Vec<usize>);
impl<I: Iterator> Iterator for Probe<'_, I> {
    type Item = I::Item;
    fn next(&mut self) -> Option<I::Item> {
        if self.1.len() < self.1.capacity() {
            self.1.push(hlog_len());
        }
        self.0.next()
    }
    fn size_hint(&self) -> (usize, Option<usize>) {
        self.0.size_hint()
    }
}
