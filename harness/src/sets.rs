//! HashSet operations (C13 and the set halves of C05/C06/C08/C09/C15/C16).

use crate::elems::*;
use crate::instr::*;
use crate::interp::*;
use crate::ops::*;
use std::collections::{BTreeMap, BTreeSet};

fn perr(errs: &mut Vec<String>, msg: String) {
    let _s = Suspend::new();
    if errs.len() < 6 {
        errs.push(msg);
    }
}

macro_rules! ic {
    ($errs:expr, $cond:expr, $($arg:tt)*) => {
        if !($cond) {
            let _s = Suspend::new();
            let m = format!($($arg)*);
            perr(&mut $errs, m);
        }
    };
}

fn pred_key(p: Pred, k: u32, old: &BTreeSet<u32>) -> bool {
    match p {
        Pred::All => true,
        Pred::None => false,
        Pred::Mask(seed) => splitmix((k as u64) ^ ((seed as u64) << 32)) & 1 == 1,
        Pred::OnlyOld => old.contains(&k),
        Pred::OnlyMain => !old.contains(&k),
        Pred::ValueParity => k & 1 == 1,
        Pred::KeyMod(m, r) => {
            let m = (m as u32).max(1);
            k % m == (r as u32) % m
        }
        Pred::KeyBelow(n) => k < n,
    }
}

impl<F: Fam> Ctx<F> {
    fn set_in_old(&mut self, s: usize, k: u32) -> Option<bool> {
        if self.sets[s].set.verif_state().old.is_none() {
            return if self.sets[s].model.contains_key(&k) { Some(false) } else { None };
        }
        if self.probe_key.k() != k {
            self.probe_key = F::K::mk(k);
        }
        self.sets[s].set.verif_in_old(&self.probe_key)
    }

    fn set_nth(&self, s: usize, i: u16) -> Option<u32> {
        let m = &self.sets[s].model;
        let (&lo, _) = m.iter().next()?;
        let (&hi, _) = m.iter().next_back()?;
        let span = (hi - lo) as u64 + 1;
        let target = (lo as u64 + ((i as u64 * span) >> 16)) as u32;
        m.range(target..).next().map(|(k, _)| *k).or(Some(lo))
    }

    pub fn resolve_set(&mut self, s: usize, sel: KeySel) -> u32 {
        match sel {
            KeySel::Fresh => self.fresh_key(),
            KeySel::Existing(i) => match self.set_nth(s, i) {
                Some(k) => k,
                None => self.fresh_key(),
            },
            KeySel::InOld(i) | KeySel::InMain(i) => {
                let want_old = matches!(sel, KeySel::InOld(_));
                if let Some(start) = self.set_nth(s, i) {
                    let keys: Vec<u32> = {
                        let m = &self.sets[s].model;
                        m.range(start..).map(|(k, _)| *k).chain(m.range(..start).map(|(k, _)| *k)).take(192).collect()
                    };
                    for k in keys {
                        if self.set_in_old(s, k) == Some(want_old) {
                            return k;
                        }
                    }
                }
                self.resolve_set(s, KeySel::Existing(i))
            }
            KeySel::NextMoved(i) => match self.sets[s].set.verif_cursor_nth(i as usize % 20).map(|k| k.k()) {
                Some(k) => k,
                None => self.resolve_set(s, KeySel::InOld((i as u16) << 8)),
            },
            KeySel::Any(k) => k % self.universe,
            KeySel::Absent(k) => {
                let mut k = k % self.universe;
                for _ in 0..64 {
                    if !self.sets[s].model.contains_key(&k) {
                        return k;
                    }
                    k = (k + 1) % self.universe;
                }
                self.fresh_key()
            }
        }
    }

    pub fn full_check_set(&mut self, s: usize, tags: &[Prop]) -> Result<(), Fail> {
        self.ledger_check(&[])?;
        let mut got: Vec<(u32, u32)> = Vec::with_capacity(self.sets[s].model.len() + 4);
        for k in self.sets[s].set.iter() {
            k.check("set iter");
            got.push((k.k(), k.id()));
        }
        got.sort_unstable();
        let want: Vec<(u32, u32)> = self.sets[s].model.iter().map(|(k, id)| (*k, *id)).collect();
        let len = self.sets[s].set.len();
        if len != want.len() || self.sets[s].set.is_empty() != want.is_empty() {
            return Err(self.mkfail(tags.to_vec(), "set-len", format!("set len() = {}, reference has {}", len, want.len()), String::new()));
        }
        if got != want {
            let extra: Vec<_> = got.iter().filter(|x| want.binary_search(x).is_err()).take(3).collect();
            let missing: Vec<_> = want.iter().filter(|x| got.binary_search(x).is_err()).take(3).collect();
            return Err(self.mkfail(tags.to_vec(), "set-contents", format!("set iter() yields {} elements, reference {}; unexpected (key,id) {:?} missing {:?}", got.len(), want.len(), extra, missing), String::new()));
        }
        let n = want.len();
        let step = if n > 4096 { n / 1024 } else { 1 };
        let mut i = 0;
        while i < n {
            let (k, id) = want[i];
            if self.probe_key.k() != k {
                self.probe_key = F::K::mk(k);
            }
            match self.sets[s].set.get(&self.probe_key) {
                Some(x) if x.id() == id => {}
                other => {
                    let d = other.map(|x| x.id());
                    return Err(self.mkfail(tags.to_vec(), "set-get-after", format!("set.get({}) = {:?}, reference has id {}", k, d, id), String::new()));
                }
            }
            i += step;
        }
        self.ledger_check(&[])
    }

    fn set_after(&mut self, s: usize, tags: &[Prop], force: bool) -> Result<(), Fail> {
        let len = self.sets[s].model.len();
        if force || len <= SMALL_LEN || self.op_index % 16 == 0 {
            self.full_check_set(s, tags)
        } else {
            self.ledger_check(&[])?;
            if self.sets[s].set.len() != len {
                return Err(self.mkfail(tags.to_vec(), "set-len", format!("set len() = {}, reference has {}", self.sets[s].set.len(), len), String::new()));
            }
            Ok(())
        }
    }

    /// point operations; `which`: 0 insert 1 replace 2 remove 3 take 4 get 5 contains
    /// 6 get_or_insert 7 get_or_insert_owned 8 get_or_insert_with
    pub fn do_set_point(&mut self, s: usize, kk: u32, which: u8) -> Result<(), Fail> {
        let present = self.sets[s].model.get(&kk).copied();
        let loc = if present.is_some() { self.set_in_old(s, kk) } else { None };
        let pre = self.st(s + 2);
        if pre.l() > 0 {
            self.nt(C13);
        }
        let obj = F::K::mk(kk);
        let new_id = obj.id();
        // returns (bool-ish result, id seen, id created)
        // every fourth remove / take / get / contains goes through the borrowed form of the element
        let borrowed = (kk as usize ^ self.op_index) % 4 == 0 && (2..=5).contains(&which);
        let ((flag, seen_id, made_id), obs) = self.observe_set(s, &[C13], move |set| match which {
            2..=5 if borrowed => {
                let r = F::set_qv(set, QV::of(&kk), which).unwrap_or(None);
                match (which, r) {
                    (3 | 4, Some((_, id))) => (true, id, 0),
                    (_, Some(_)) => (true, 0, 0),
                    (_, None) => (false, 0, 0),
                }
            }
            0 => (set.insert(obj), 0, 0),
            1 => match set.replace(obj) {
                Some(old) => {
                    old.check("replace");
                    (true, old.id(), 0)
                }
                None => (false, 0, 0),
            },
            2 => (set.remove(&obj), 0, 0),
            3 => match set.take(&obj) {
                Some(old) => {
                    old.check("take");
                    (true, old.id(), 0)
                }
                None => (false, 0, 0),
            },
            4 => match set.get(&obj) {
                Some(x) => {
                    x.check("get");
                    (true, x.id(), 0)
                }
                None => (false, 0, 0),
            },
            5 => (set.contains(&obj), 0, 0),
            6 => {
                let r = set.get_or_insert(obj);
                r.check("get_or_insert");
                (r.k() == kk, r.id(), 0)
            }
            7 => {
                let r = set.get_or_insert_owned(&obj);
                r.check("get_or_insert_owned");
                (r.k() == kk, r.id(), 0)
            }
            _ => {
                let mut made = 0;
                let r = set.get_or_insert_with(&obj, |q| {
                    tick(K_CLOSURE, (q.k(), q.id()), (0, 0));
                    let n = F::K::mk(q.k());
                    made = n.id();
                    n
                });
                r.check("get_or_insert_with");
                let rid = r.id();
                (r.k() == kk, rid, made)
            }
        })?;
        let tr = F::K::TRACKED;
        let mut f = Facts::point(kk);
        f.listed = false;
        let model = &mut self.sets[s].model;
        let mut bad: Option<String> = None;
        match which {
            0 => {
                if flag != present.is_none() {
                    bad = Some(format!("insert({}) returned {}, reference present = {}", kk, flag, present.is_some()));
                }
                if present.is_none() {
                    model.insert(kk, new_id);
                    f.added = true;
                } else {
                    f.overwrote_old = loc == Some(true);
                }
            }
            1 => {
                if flag != present.is_some() || (tr && flag && Some(seen_id) != present) {
                    bad = Some(format!("replace({}) returned Some = {} (id {}), reference entry {:?}", kk, flag, seen_id, present));
                }
                if present.is_none() {
                    f.added = true;
                }
                model.insert(kk, new_id);
            }
            2 | 3 => {
                if flag != present.is_some() || (which == 3 && tr && flag && Some(seen_id) != present) {
                    bad = Some(format!("{}({}) found = {} (id {}), reference entry {:?}", if which == 2 { "remove" } else { "take" }, kk, flag, seen_id, present));
                }
                if present.is_some() {
                    model.remove(&kk);
                    if loc == Some(true) {
                        f.removed_from_old = 1;
                    }
                }
            }
            4 | 5 => {
                if flag != present.is_some() || (which == 4 && tr && flag && Some(seen_id) != present) {
                    bad = Some(format!("{}({}) found = {} (id {}), reference entry {:?}", if which == 4 { "get" } else { "contains" }, kk, flag, seen_id, present));
                }
            }
            6 => {
                let want = present.unwrap_or(new_id);
                if !flag || (tr && seen_id != want) {
                    bad = Some(format!("get_or_insert({}) returned id {}, expected {}", kk, seen_id, want));
                }
                if present.is_none() {
                    model.insert(kk, new_id);
                    f.added = true;
                }
            }
            7 => {
                match present {
                    Some(id) => {
                        if !flag || (tr && seen_id != id) {
                            bad = Some(format!("get_or_insert_owned({}) returned id {}, stored object is {}", kk, seen_id, id));
                        }
                    }
                    None => {
                        if !flag || (tr && (seen_id == new_id || seen_id == 0)) {
                            bad = Some(format!("get_or_insert_owned({}) returned id {} (query object was {})", kk, seen_id, new_id));
                        }
                        model.insert(kk, seen_id);
                        f.added = true;
                    }
                }
            }
            _ => match present {
                Some(id) => {
                    if !flag || made_id != 0 || (tr && seen_id != id) {
                        bad = Some(format!("get_or_insert_with({}) returned id {}, closure made {}, stored object is {}", kk, seen_id, made_id, id));
                    }
                }
                None => {
                    if !flag || (tr && (made_id == 0 || seen_id != made_id)) {
                        bad = Some(format!("get_or_insert_with({}) returned id {}, closure made {}", kk, seen_id, made_id));
                    }
                    model.insert(kk, seen_id);
                    f.added = true;
                }
            },
        }
        if let Some(msg) = bad {
            return Err(self.mkfail(vec![C13], "set-point", msg, String::new()));
        }
        self.judge(s + 2, &obs, &f)?;
        self.set_after(s, &[C13], false)
    }

    fn set_old_keys(&mut self, s: usize) -> BTreeSet<u32> {
        let mut out = BTreeSet::new();
        if self.sets[s].set.verif_state().old.map_or(0, |o| o.len) == 0 {
            return out;
        }
        let keys: Vec<u32> = self.sets[s].model.keys().copied().collect();
        for k in keys {
            if self.set_in_old(s, k) == Some(true) {
                out.insert(k);
            }
        }
        out
    }

    pub fn do_set_retain(&mut self, s: usize, pred: Pred) -> Result<(), Fail> {
        let n = self.sets[s].model.len();
        let old = self.set_old_keys(s);
        if self.st(s + 2).l() > 0 {
            self.nt(C09);
            self.nt(C13);
        }
        let mut log: Vec<(u32, u32)> = Vec::with_capacity(n + 8);
        let oldc = &old;
        let (log, obs) = self.observe_set(s, &[C09, C13], move |set| {
            set.retain(|k| {
                tick(K_CLOSURE, (k.k(), k.id()), (0, 0));
                let _s = Suspend::new();
                k.check("set retain");
                if log.len() < log.capacity() {
                    log.push((k.k(), k.id()));
                }
                pred_key(pred, k.k(), oldc)
            });
            log
        })?;
        let mut seen = log;
        seen.sort_unstable();
        let want: Vec<(u32, u32)> = self.sets[s].model.iter().map(|(k, id)| (*k, *id)).collect();
        if seen != want {
            fail!(self, [C09, C13], "retain-call-log", "set retain called the predicate {} times for {} elements", seen.len(), want.len());
        }
        let gone: Vec<u32> = self.sets[s].model.keys().filter(|k| !pred_key(pred, **k, &old)).copied().collect();
        let removed_old = gone.iter().filter(|k| old.contains(k)).count();
        for k in gone {
            self.sets[s].model.remove(&k);
        }
        let mut f = Facts::of(Kind::Bulk);
        f.removed_from_old = removed_old;
        f.removed_lingering = true;
        self.judge(s + 2, &obs, &f)?;
        self.full_check_set(s, &[C09, C13])
    }

    pub fn do_set_drain_filter(&mut self, s: usize, pred: Pred, take: Option<u16>, forget: bool) -> Result<(), Fail> {
        let n = self.sets[s].model.len();
        let old = self.set_old_keys(s);
        if self.st(s + 2).l() > 0 {
            self.nt(C09);
            self.nt(C13);
        }
        let matching = self.sets[s].model.keys().filter(|k| pred_key(pred, **k, &old)).count();
        let take_n = take.map_or(usize::MAX, |t| (t as usize * (matching + 1)) >> 16);
        let mut log: Vec<(u32, u32)> = Vec::with_capacity(n + 8);
        let mut out: Vec<(u32, u32)> = Vec::with_capacity(n + 8);
        let oldc = &old;
        let ((log, out), obs) = self.observe_set(s, &[C09, C13], move |set| {
            let logref = &mut log;
            let mut df = set.drain_filter(|k| {
                tick(K_CLOSURE, (k.k(), k.id()), (0, 0));
                let _s = Suspend::new();
                if logref.len() < logref.capacity() {
                    logref.push((k.k(), k.id()));
                }
                pred_key(pred, k.k(), oldc)
            });
            let mut taken = 0;
            while taken < take_n {
                match df.next() {
                    Some(k) => {
                        k.check("set drain_filter item");
                        if out.len() < out.capacity() {
                            out.push((k.k(), k.id()));
                        }
                        taken += 1;
                    }
                    None => break,
                }
            }
            if forget {
                std::mem::forget(df);
            } else {
                drop(df);
            }
            (log, out)
        })?;
        let mut seen = BTreeSet::new();
        for it in &log {
            if !seen.insert(it.0) || self.sets[s].model.get(&it.0) != Some(&it.1) {
                fail!(self, [C09, C13], "drain-filter-call-log", "set drain_filter predicate saw {:?} (twice or unknown)", it);
            }
        }
        if !forget && log.len() != n {
            fail!(self, [C09, C13], "drain-filter-call-log", "set drain_filter predicate called {} times for {} elements", log.len(), n);
        }
        let mut yielded = BTreeSet::new();
        for it in &out {
            if !pred_key(pred, it.0, &old) || self.sets[s].model.get(&it.0) != Some(&it.1) || !yielded.insert(it.0) {
                fail!(self, [C09, C13], "drain-filter-yield", "set drain_filter yielded {:?}", it);
            }
        }
        if !forget && take.is_none() && out.len() != matching {
            fail!(self, [C09, C13], "drain-filter-yield", "set drain_filter yielded {} elements, {} match", out.len(), matching);
        }
        let gone: Vec<u32> = self.sets[s]
            .model
            .keys()
            .filter(|k| if forget { yielded.contains(k) } else { pred_key(pred, **k, &old) })
            .copied()
            .collect();
        let removed_old = gone.iter().filter(|k| old.contains(k)).count();
        for k in gone {
            self.sets[s].model.remove(&k);
        }
        let mut f = Facts::of(Kind::Bulk);
        f.removed_from_old = removed_old;
        self.judge(s + 2, &obs, &f)?;
        self.full_check_set(s, &[C09, C13])
    }

    /// which: 0 iter (with clone / fusedness), 1 drain, 2 into_iter
    pub fn do_set_iter(&mut self, s: usize, which: u8, clone_at: Option<u16>, take: Option<u16>, forget: bool) -> Result<(), Fail> {
        self.forget_in_flight = forget && which == 1;
        let n = self.sets[s].model.len();
        if self.st(s + 2).l() > 0 {
            self.nt(C08);
            self.nt(C13);
        }
        let clone_idx = clone_at.map(|j| (j as usize * (n + 1)) >> 16);
        let take_n = take.map_or(n, |t| (t as usize * (n + 1)) >> 16);
        let mut out: Vec<(u32, u32)> = Vec::with_capacity(n + 8);
        let mut cl: Vec<(u32, u32)> = Vec::with_capacity(n + 8);
        let mut errs: Vec<String> = Vec::with_capacity(8);
        if which == 2 {
            let vh = self.meta[s + 2].vh;
            let old = std::mem::replace(&mut self.sets[s].set, Set::<F>::with_hasher(vh));
            let prevq = panic_quiet(true);
            let (r, al) = window(|| {
                std::panic::catch_unwind(std::panic::AssertUnwindSafe(|| {
                    let mut it = old.into_iter();
                    let mut rem = n;
                    for i in 0..take_n {
                        ic!(errs, it.len() == rem && it.size_hint() == (rem, Some(rem)), "set into_iter(): after {} items len() = {}, {} remain", i, it.len(), rem);
                        if (i == 0 || i == take_n / 2) && rem <= 20_000 {
                            let c = crate::iters::debug_numbers(&it);
                            ic!(errs, c == rem, "set into_iter(): after {} items its Debug output lists {} elements, {} remain", i, c, rem);
                        }
                        match it.next() {
                            Some(k) => {
                                k.check("set into_iter");
                                if out.len() < out.capacity() {
                                    out.push((k.k(), k.id()));
                                }
                                rem = rem.saturating_sub(1);
                            }
                            None => break,
                        }
                    }
                    if take_n >= n {
                        ic!(errs, it.next().is_none() && it.next().is_none(), "set into_iter(): item after the end");
                    } else if take_n % 3 == 1 {
                        ic!(errs, it.nth(rem + 1).is_none(), "set into_iter(): nth({}) with {} items left is Some", rem + 1, rem);
                        ic!(errs, it.len() == 0 && it.next().is_none(), "set into_iter(): after nth() past the end len() = {}, not exhausted", it.len());
                    }
                    drop(it);
                }))
            });
            panic_quiet(prevq);
            if r.is_err() {
                let (msg, loc) = take_last_panic().unwrap_or_default();
                fail!(self, [C08, C13], "unexpected-panic", "set into_iter panicked: {} at {}", msg, norm_loc(&loc));
            }
            let live = self.meta[s + 2].live + al.allocs as i64 - al.deallocs as i64;
            if live != 0 {
                fail!(self, [C06], "tables-alive-after-drop", "{} table allocation(s) alive after set into_iter() was dropped", live);
            }
            self.meta[s + 2] = Meta::new(vh, 0);
        } else {
            let ((o, c, e), obs) = self.observe_set(s, &[C08, C13], move |set| {
                if which == 0 {
                    let mut it = set.iter();
                    let mut rem = n;
                    let mut cloned = None;
                    let mut i = 0;
                    loop {
                        ic!(errs, it.len() == rem && it.size_hint() == (rem, Some(rem)), "set iter(): after {} items len() = {}, size_hint {:?}, {} remain", i, it.len(), it.size_hint(), rem);
                        if (i == 0 || Some(i) == clone_idx) && rem <= 20_000 {
                            let c = crate::iters::debug_numbers(&it);
                            ic!(errs, c == rem, "set iter(): after {} items its Debug output lists {} elements, {} remain", i, c, rem);
                        }
                        if Some(i) == clone_idx {
                            cloned = Some(it.clone());
                        }
                        match it.next() {
                            Some(k) => {
                                if out.len() < out.capacity() {
                                    out.push((k.k(), k.id()));
                                }
                                rem = rem.saturating_sub(1);
                            }
                            None => break,
                        }
                        i += 1;
                        if i > n + 4 {
                            break;
                        }
                    }
                    ic!(errs, rem == 0, "set iter(): stopped with {} items expected", rem);
                    ic!(errs, it.next().is_none() && it.next().is_none(), "set iter(): item after None");
                    if let Some(c) = cloned {
                        for k in c {
                            if cl.len() < cl.capacity() {
                                cl.push((k.k(), k.id()));
                            }
                        }
                    }
                    // internal iteration (fold) of what is left after `skip` next() calls enumerates
                    // exactly what next() yields from there, in the same order
                    if out.len() == n && n <= 20_000 {
                        let skip = clone_idx.unwrap_or(0).min(n);
                        let mut it = set.iter();
                        for _ in 0..skip {
                            it.next();
                        }
                        let mut pos = skip;
                        let mut same = true;
                        it.for_each(|k| {
                            same &= out.get(pos) == Some(&(k.k(), k.id()));
                            pos += 1;
                        });
                        ic!(errs, same && pos == n, "set iter(): internal iteration (fold / for_each) after {} next() calls enumerated {} elements, in an order or multiset different from what next() yields from there ({} elements)", skip, pos - skip, n - skip);
                    }
                } else {
                    let mut d = set.drain();
                    let mut rem = n;
                    for i in 0..take_n {
                        ic!(errs, d.len() == rem && d.size_hint() == (rem, Some(rem)), "set drain(): after {} items len() = {}, {} remain", i, d.len(), rem);
                        if (i == 0 || i == take_n / 2) && rem <= 20_000 {
                            let c = crate::iters::debug_numbers(&d);
                            ic!(errs, c == rem, "set drain(): after {} items its Debug output lists {} elements, {} remain", i, c, rem);
                        }
                        match d.next() {
                            Some(k) => {
                                k.check("set drain");
                                if out.len() < out.capacity() {
                                    out.push((k.k(), k.id()));
                                }
                                rem = rem.saturating_sub(1);
                            }
                            None => break,
                        }
                    }
                    if take_n >= n {
                        ic!(errs, d.next().is_none() && d.next().is_none(), "set drain(): item after the end");
                    }
                    if forget {
                        std::mem::forget(d);
                    } else {
                        if take_n % 3 == 1 {
                            ic!(errs, d.nth(rem + 1).is_none(), "set drain(): nth({}) with {} items left is Some", rem + 1, rem);
                            ic!(errs, d.len() == 0 && d.next().is_none(), "set drain(): after nth() past the end len() = {}, not exhausted", d.len());
                        }
                        drop(d);
                    }
                }
                (out, cl, errs)
            })?;
            out = o;
            cl = c;
            errs = e;
            let mut f = Facts::of(Kind::Bulk);
            f.clears = which == 1;
            if which == 1 && forget {
                let st = self.st(s + 2);
                self.meta[s + 2].live = if st.hook.main_buckets > 1 { 1 } else { 0 };
            }
            self.judge(s + 2, &obs, &f)?;
        }
        if !errs.is_empty() {
            return Err(self.mkfail(vec![C08, C13], "iterator-protocol", errs.join("; "), String::new()));
        }
        let mut seen = BTreeSet::new();
        for it in &out {
            if !seen.insert(it.0) || self.sets[s].model.get(&it.0) != Some(&it.1) {
                fail!(self, [C08, C13], "yielded-unknown", "set iterator yielded {:?} (twice or not in the reference)", it);
            }
        }
        let expect = if which == 0 { n } else { take_n.min(n) };
        if out.len() != expect {
            fail!(self, [C08, C13], "iterator-multiset", "set iterator yielded {} elements, expected {}", out.len(), expect);
        }
        if which == 0 {
            if let Some(ci) = clone_idx {
                if cl.as_slice() != &out[ci.min(out.len())..] {
                    fail!(self, [C08], "iterator-clone", "set iter() clone at {} yielded {} items, original {} from there", ci, cl.len(), out.len() - ci.min(out.len()));
                }
            }
        } else {
            if which == 1 && forget {
                for (k, id) in self.sets[s].model.iter() {
                    if !seen.contains(k) {
                        self.allow_leak.insert(*id);
                    }
                }
                self.forget_in_flight = false;
            }
            self.sets[s].model.clear();
        }
        self.full_check_set(s, &[C08, C13])
    }

    pub fn do_set_extend(&mut self, s: usize, items: &[KeySel], by_ref: bool, from_iter: bool) -> Result<(), Fail> {
        let mut objs: Vec<F::K> = Vec::with_capacity(items.len());
        let mut desc = Vec::with_capacity(items.len());
        for sel in items {
            let kk = self.resolve_set(s, *sel);
            let k = F::K::mk(kk);
            desc.push((kk, k.id()));
            objs.push(k);
        }
        let n = objs.len();
        let objs_ref = &mut objs;
        if from_iter {
            let prevq = panic_quiet(true);
            let (r, a) = window(|| std::panic::catch_unwind(std::panic::AssertUnwindSafe(move || objs_ref.drain(..).collect::<Set<F>>())));
            panic_quiet(prevq);
            let newset = match r {
                Ok(x) => x,
                Err(_) => {
                    let (msg, loc) = take_last_panic().unwrap_or_default();
                    fail!(self, [C13], "unexpected-panic", "set from_iter panicked: {} at {}", msg, norm_loc(&loc));
                }
            };
            let vh = *newset.hasher();
            self.replace_set(s, newset, vh, a.allocs as i64 - a.deallocs as i64)?;
        } else {
            let (_, obs) = self.observe_set(s, &[C13], move |set| {
                if by_ref && F::set_extend_ref(set, objs_ref) {
                    return;
                }
                set.extend(objs_ref.drain(..));
            })?;
            let f = Facts::of(Kind::Extend(n));
            self.judge(s + 2, &obs, &f)?;
        }
        for (kk, id) in desc {
            self.sets[s].model.entry(kk).or_insert(id);
        }
        self.full_check_set(s, &[C13])
    }

    pub fn replace_set(&mut self, s: usize, newset: Set<F>, vh: VH, new_live: i64) -> Result<(), Fail> {
        let old = std::mem::replace(&mut self.sets[s].set, newset);
        let prevq = panic_quiet(true);
        let (r, a) = window(|| std::panic::catch_unwind(std::panic::AssertUnwindSafe(move || drop(old))));
        panic_quiet(prevq);
        if r.is_err() {
            let (msg, loc) = take_last_panic().unwrap_or_default();
            fail!(self, [C06, C05], "drop-panicked", "dropping a set panicked: {} at {}", msg, norm_loc(&loc));
        }
        let live = self.meta[s + 2].live + a.allocs as i64 - a.deallocs as i64;
        if live != 0 {
            fail!(self, [C06], "tables-alive-after-drop", "{} table allocation(s) alive after a set was dropped", live);
        }
        self.sets[s].model.clear();
        self.meta[s + 2] = Meta::new(vh, new_live);
        self.ledger_check(&[C06])
    }

    /// which: 0 clear, 1 reserve(n), 2 shrink_to(m), 3 shrink_to_fit, 4 fill-to-capacity + 1
    pub fn do_set_misc(&mut self, s: usize, which: u8, arg: usize) -> Result<(), Fail> {
        match which {
            0 => {
                let (_, obs) = self.observe_set(s, &[C13], |set| set.clear())?;
                self.sets[s].model.clear();
                let mut f = Facts::of(Kind::Bulk);
                f.clears = true;
                self.judge(s + 2, &obs, &f)?;
            }
            1 => {
                let add = arg.min(1 << 17);
                let (_, obs) = self.observe_set(s, &[C10], move |set| set.reserve(add))?;
                if obs.post.cap < obs.post.len + add {
                    fail!(self, [C10], "reserve-postcondition", "set: after reserve({}) capacity() = {} < len() + n = {}", add, obs.post.cap, obs.post.len + add);
                }
                self.judge(s + 2, &obs, &Facts::of(Kind::Reserve))?;
            }
            5 => {
                let huge = arg >= (1usize << 61);
                let add = if huge { arg } else { arg.min(1 << 17) };
                let pre_len = self.sets[s].set.len();
                let (r, obs) = self.observe_set(s, &[C10], move |set| set.try_reserve(add).is_ok())?;
                if huge {
                    if r {
                        fail!(self, [C10], "try-reserve-huge-ok", "set: try_reserve({}) returned Ok(()) with capacity() = {}", add, obs.post.cap);
                    }
                    if obs.post.len != pre_len {
                        fail!(self, [C10], "try-reserve-err-changed", "set: a failed try_reserve changed len() from {} to {}", pre_len, obs.post.len);
                    }
                } else {
                    if !r || obs.post.cap < obs.post.len + add {
                        fail!(self, [C10], "reserve-postcondition", "set: try_reserve({}) ok = {}, capacity() = {} , len() + n = {}", add, r, obs.post.cap, obs.post.len + add);
                    }
                    self.judge(s + 2, &obs, &Facts::of(Kind::Reserve))?;
                }
            }
            2 | 3 => {
                let pre = self.st(s + 2);
                let (_, obs) = self.observe_set(s, &[C10], move |set| if which == 2 { set.shrink_to(arg) } else { set.shrink_to_fit() })?;
                let m = if which == 2 { arg } else { 0 };
                if obs.post.cap < obs.post.len.max(m.min(pre.cap)) || obs.post.hook.main_buckets > pre.hook.main_buckets {
                    fail!(self, [C10], "shrink-postcondition", "set: after shrink({}) capacity() = {} len() = {} previous capacity {}", m, obs.post.cap, obs.post.len, pre.cap);
                }
                self.judge(s + 2, &obs, &Facts::of(Kind::Shrink))?;
            }
            _ => {
                let mut guard = 0;
                let lcap = match self.meta[s + 2].vh.mode {
                    HMode::Collide => 400,
                    HMode::Low => 1500,
                    _ => usize::MAX,
                };
                if self.sets[s].model.len() >= lcap {
                    return Ok(());
                }
                loop {
                    let st = self.st(s + 2);
                    if st.len >= st.cap || guard > 40_000 || st.len >= lcap {
                        break;
                    }
                    let kk = self.fresh_key();
                    self.do_set_point(s, kk, 0)?;
                    guard += 1;
                }
                let kk = self.fresh_key();
                self.do_set_point(s, kk, 0)?;
            }
        }
        self.full_check_set(s, &[C13])
    }

    pub fn do_set_clone(&mut self, dst: usize, src: usize, from: bool) -> Result<(), Fail> {
        if dst == src {
            return Ok(());
        }
        let spre = self.st(src + 2);
        if spre.l() > 0 || self.st(dst + 2).l() > 0 {
            self.nt(C11);
            self.nt(C13);
        }
        let src_vh = self.meta[src + 2].vh;
        let prevq = panic_quiet(true);
        let _ = take_last_panic();
        let armed = self.arm.is_some();
        let r;
        let al;
        if from {
            let (a, b) = self.sets.split_at_mut(1);
            let (d, sref) = if dst == 0 { (&mut a[0], &b[0]) } else { (&mut b[0], &a[0]) };
            let (rr, aa) = window(|| fcall(armed, || d.set.clone_from(&sref.set)));
            r = rr.map(|_| None);
            al = aa;
        } else {
            let sset = &self.sets[src].set;
            let (rr, aa) = window(|| fcall(armed, || sset.clone()));
            r = rr.map(Some);
            al = aa;
        }
        panic_quiet(prevq);
        let newset = match r {
            Ok(x) => x,
            Err(_) => {
                let (msg, loc) = take_last_panic().unwrap_or_default();
                let p = PanicInfo { msg, loc: norm_loc(&loc) };
                return Err(self.unexpected_panic(&p, &spre, false, &[C11, C13]));
            }
        };
        let delta = al.allocs as i64 - al.deallocs as i64;
        match newset {
            Some(c) => self.replace_set(dst, c, src_vh, delta)?,
            None => {
                let live = self.meta[dst + 2].live + delta;
                self.meta[dst + 2] = Meta::new(src_vh, live);
            }
        }
        if *self.sets[dst].set.hasher() != src_vh {
            fail!(self, [C11], "clone-hasher", "after a set {} the destination's hasher() is {:?}, the source's is {:?}", if from { "clone_from" } else { "clone" }, self.sets[dst].set.hasher(), src_vh);
        }
        let src_ids: BTreeSet<u32> = self.sets[src].model.values().copied().collect();
        let mut actual: Vec<(u32, u32)> = self.sets[dst].set.iter().map(|k| (k.k(), k.id())).collect();
        actual.sort_unstable();
        let got: Vec<u32> = actual.iter().map(|x| x.0).collect();
        let want: Vec<u32> = self.sets[src].model.keys().copied().collect();
        if got != want {
            fail!(self, [C11, C13], "clone-contents", "set clone has {} elements, source {}", got.len(), want.len());
        }
        if F::K::TRACKED && actual.iter().any(|x| src_ids.contains(&x.1)) {
            fail!(self, [C11, C06], "clone-shares-objects", "set clone holds the same object as its source");
        }
        self.sets[dst].model = actual.into_iter().collect::<BTreeMap<u32, u32>>();
        let e1 = self.sets[0].set == self.sets[1].set;
        let e2 = self.sets[1].set == self.sets[0].set;
        if !e1 || !e2 {
            fail!(self, [C11, C13], "clone-not-equal", "set clone: a == b {}, b == a {}", e1, e2);
        }
        let st = self.st(dst + 2);
        if st.cap < st.len {
            fail!(self, [C04, C11], "capacity-below-len", "set clone destination capacity() {} < len() {}", st.cap, st.len);
        }
        if self.meta[dst + 2].live > 1 {
            fail!(self, [C03, C06], "table-leak", "set clone destination owns {} table allocations", self.meta[dst + 2].live);
        }
        self.full_check_set(src, &[C11, C13])?;
        self.full_check_set(dst, &[C11, C13])
    }

    /// all binary set operations, both operand orders, against BTreeSet algebra
    pub fn do_set_algebra(&mut self) -> Result<(), Fail> {
        if self.st(2).l() > 0 || self.st(3).l() > 0 {
            self.nt(C13);
        }
        let prevq = panic_quiet(true);
        let _ = take_last_panic();
        let r = std::panic::catch_unwind(std::panic::AssertUnwindSafe(|| self.set_algebra_inner()));
        panic_quiet(prevq);
        match r {
            Ok(r) => r,
            Err(payload) => {
                if payload.is::<FuseMarker>() {
                    std::panic::resume_unwind(payload);
                }
                let (msg, loc) = take_last_panic().unwrap_or_default();
                fail!(self, [C13], "unexpected-panic", "set algebra panicked: {} at {}", msg, norm_loc(&loc));
            }
        }
    }

    fn set_algebra_inner(&mut self) -> Result<(), Fail> {
        let ma: BTreeSet<u32> = self.sets[0].model.keys().copied().collect();
        let mb: BTreeSet<u32> = self.sets[1].model.keys().copied().collect();
        // both orders of the two sets, and each set against itself (equal operands)
        for order in 0..4 {
            let (x, y, mx, my) = match order {
                0 => (&self.sets[0].set, &self.sets[1].set, &ma, &mb),
                1 => (&self.sets[1].set, &self.sets[0].set, &mb, &ma),
                2 => (&self.sets[0].set, &self.sets[0].set, &ma, &ma),
                _ => (&self.sets[1].set, &self.sets[1].set, &mb, &mb),
            };
            let check = |name: &str, got: Vec<u32>, want: Vec<u32>| -> Option<String> {
                let mut g = got.clone();
                g.sort_unstable();
                let dup = g.windows(2).any(|w| w[0] == w[1]);
                if dup || g != want {
                    Some(format!("{} (order {}): yielded {} elements (duplicates: {}), expected {}", name, order, got.len(), dup, want.len()))
                } else {
                    None
                }
            };
            let mut problems: Vec<String> = Vec::new();
            let mut run = |name: &str, got: Vec<u32>, want: Vec<u32>| {
                if let Some(p) = check(name, got, want) {
                    problems.push(p);
                }
            };
            run("union", x.union(y).map(|k| k.k()).collect(), mx.union(my).copied().collect());
            run("intersection", x.intersection(y).map(|k| k.k()).collect(), mx.intersection(my).copied().collect());
            run("difference", x.difference(y).map(|k| k.k()).collect(), mx.difference(my).copied().collect());
            run("symmetric_difference", x.symmetric_difference(y).map(|k| k.k()).collect(), mx.symmetric_difference(my).copied().collect());
            run("|", (x | y).iter().map(|k| k.k()).collect(), mx.union(my).copied().collect());
            run("&", (x & y).iter().map(|k| k.k()).collect(), mx.intersection(my).copied().collect());
            run("^", (x ^ y).iter().map(|k| k.k()).collect(), mx.symmetric_difference(my).copied().collect());
            run("-", (x - y).iter().map(|k| k.k()).collect(), mx.difference(my).copied().collect());
            // the operator results are sets of their own (built with S::default()): they must answer
            // lookups for exactly their elements and compare equal to an equal set, both ways
            {
                let u = x | y;
                let i = x & y;
                let want_u: BTreeSet<u32> = mx.union(my).copied().collect();
                let want_i: BTreeSet<u32> = mx.intersection(my).copied().collect();
                let mut rebuilt = Set::<F>::with_hasher(VH { mode: HMode::Good, seed: 0x5eed });
                for k in &want_u {
                    rebuilt.insert(F::K::mk(*k));
                }
                let probe_keys: Vec<u32> = want_u.iter().copied().chain([u32::MAX - 7]).collect();
                for k in probe_keys {
                    let q = F::K::mk(k);
                    if u.contains(&q) != want_u.contains(&k) || u.get(&q).is_some() != want_u.contains(&k) {
                        problems.push(format!("(a | b).contains({}) = {}, expected {} (order {})", k, u.contains(&q), want_u.contains(&k), order));
                        break;
                    }
                    if i.contains(&q) != want_i.contains(&k) {
                        problems.push(format!("(a & b).contains({}) = {}, expected {} (order {})", k, i.contains(&q), want_i.contains(&k), order));
                        break;
                    }
                }
                if u.len() != want_u.len() || !(u == rebuilt) || !(rebuilt == u) || !x.is_subset(&u) || !u.is_superset(y) {
                    problems.push(format!("a | b (order {}): len {}, == rebuilt {} / {}, a.is_subset {} , is_superset(b) {}", order, u.len(), u == rebuilt, rebuilt == u, x.is_subset(&u), u.is_superset(y)));
                }
            }
            // Debug of the lazy iterators lists the whole result (it clones, consumes nothing)
            {
                let lens = [
                    ("union", crate::iters::debug_numbers(&x.union(y)), mx.union(my).count()),
                    ("intersection", crate::iters::debug_numbers(&x.intersection(y)), mx.intersection(my).count()),
                    ("difference", crate::iters::debug_numbers(&x.difference(y)), mx.difference(my).count()),
                    ("symmetric_difference", crate::iters::debug_numbers(&x.symmetric_difference(y)), mx.symmetric_difference(my).count()),
                ];
                for (name, got, want) in lens {
                    if got != want {
                        problems.push(format!("Debug of {} (order {}) lists {} elements, expected {}", name, order, got, want));
                    }
                }
            }
            // cloned lazy iterators continue independently from any point, and size_hint brackets
            // what is still to come
            {
                fn probe<'a, K: KeyT + 'a, I: Iterator<Item = &'a K> + Clone>(name: &str, it: I, problems: &mut Vec<String>) {
                    let total = it.clone().count();
                    for j in [0usize, 1, total / 2, total] {
                        let mut a = it.clone();
                        for _ in 0..j.min(total) {
                            a.next();
                        }
                        let (lo, hi) = a.size_hint();
                        let c = a.clone();
                        let rest1: Vec<u32> = a.map(|k| k.k()).collect();
                        let rest2: Vec<u32> = c.map(|k| k.k()).collect();
                        if rest1 != rest2 {
                            problems.push(format!("{}: a clone taken after {} items yields {} items, the original {}", name, j, rest2.len(), rest1.len()));
                        }
                        if lo > rest1.len() || hi.map_or(false, |h| h < rest1.len()) {
                            problems.push(format!("{}: size_hint ({}, {:?}) after {} items, but {} items follow", name, lo, hi, j, rest1.len()));
                        }
                    }
                }
                probe("union", x.union(y), &mut problems);
                probe("intersection", x.intersection(y), &mut problems);
                probe("difference", x.difference(y), &mut problems);
                probe("symmetric_difference", x.symmetric_difference(y), &mut problems);
            }
            let preds = [
                ("is_subset", x.is_subset(y), mx.is_subset(my)),
                ("is_superset", x.is_superset(y), mx.is_superset(my)),
                ("is_disjoint", x.is_disjoint(y), mx.is_disjoint(my)),
                ("==", x == y, mx == my),
                ("self ==", x == x, true),
            ];
            for (name, got, want) in preds {
                if got != want {
                    problems.push(format!("{} (order {}) = {}, expected {}", name, order, got, want));
                }
            }
            if !problems.is_empty() {
                return Err(self.mkfail(vec![C13], "set-algebra", problems.join("; "), String::new()));
            }
        }
        self.ledger_check(&[])
    }
}
