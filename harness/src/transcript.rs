//! C17: the transcript of a case (results, panics, len, capacity, table state, final contents),
//! written by whichever build profile this binary was compiled with.

use crate::elems::*;
use crate::gen;
use crate::instr::*;
use crate::interp::*;
use crate::ops::*;
use proptest::strategy::{Strategy, ValueTree};
use proptest::test_runner::{Config, RngAlgorithm, TestRng, TestRunner};
use std::io::Write;

pub fn generate(prop: Prop, thorough: bool, seed: u64, n: u32) -> Vec<Case> {
    let profile = gen::profile(prop, thorough);
    let strat = if prop == C14 { gen::c14_case_strategy(thorough) } else { gen::case_strategy(&profile) };
    let mut seed_bytes = [0u8; 32];
    let s = splitmix(seed ^ 0x7EA5_0000 ^ ((prop as u64) << 40));
    for i in 0..4 {
        seed_bytes[i * 8..i * 8 + 8].copy_from_slice(&splitmix(s.wrapping_add(i as u64)).to_le_bytes());
    }
    let rng = TestRng::from_seed(RngAlgorithm::ChaCha, &seed_bytes);
    let mut runner = TestRunner::new_with_rng(Config { failure_persistence: None, ..Config::default() }, rng);
    (0..n).filter_map(|_| strat.new_tree(&mut runner).ok().map(|t| t.current())).collect()
}

fn run_one<F: Fam>(case: &Case, big: bool, w: &mut impl Write) -> std::io::Result<u32> {
    fuse_off();
    let mut ctx: Ctx<F> = Ctx::new(case);
    ctx.big = big;
    ctx.focus = Some(C17);
    for (i, op) in case.ops.iter().enumerate() {
        match ctx.step(i, op) {
            Ok(()) => {
                let a = ctx.st(0);
                let b = ctx.st(1);
                let c = ctx.st(2);
                let d = ctx.st(3);
                writeln!(
                    w,
                    "{} {} ok | {} {} {:?} | {} {} {:?} | {} {} {:?} | {} {} {:?}",
                    i, op.name(), a.len, a.cap, hk(&a), b.len, b.cap, hk(&b), c.len, c.cap, hk(&c), d.len, d.cap, hk(&d)
                )?;
            }
            Err(f) => {
                writeln!(w, "{} {} FAIL {}", i, op.name(), f.signature())?;
                let nt = ctx.stats.nontrivial;
                std::mem::forget(ctx);
                return Ok(nt);
            }
        }
    }
    let mut h: u64 = 0;
    for s in 0..2 {
        for (k, e) in ctx.actual_contents(s) {
            h = splitmix(h ^ ((k as u64) << 32 | e.v as u64));
        }
    }
    let nt = ctx.stats.nontrivial;
    match ctx.finish() {
        Ok(st) => {
            writeln!(w, "end contents={:016x}", h)?;
            Ok(nt | st.nontrivial)
        }
        Err(f) => {
            writeln!(w, "end FAIL {}", f.signature())?;
            Ok(nt)
        }
    }
}

fn hk(s: &St) -> (usize, usize, Option<(usize, usize)>) {
    (s.hook.main_len, s.hook.main_buckets, s.hook.old.map(|o| (o.len, o.buckets)))
}

pub fn run(cases: &str, out: &str, from: usize, big: bool) {
    let txt = std::fs::read_to_string(cases).expect("read cases");
    let mut f = std::fs::OpenOptions::new().create(true).append(true).open(out).expect("open out");
    let wd = crate::runner::Watchdog::start(format!("{}.hang", out), crate::runner::case_time_limit(big));
    for (idx, line) in txt.lines().enumerate() {
        if idx < from || line.trim().is_empty() {
            continue;
        }
        let case: Case = serde_json::from_str(line).expect("case");
        writeln!(f, "BEGIN {}", idx).unwrap();
        f.flush().unwrap();
        wd.begin(|| line.to_string());
        let mut buf: Vec<u8> = Vec::new();
        let nt = match case.family {
            Family::P => run_one::<FamP>(&case, big, &mut buf),
            Family::T => run_one::<FamT>(&case, big, &mut buf),
        }
        .unwrap_or(0);
        f.write_all(&buf).unwrap();
        writeln!(f, "END {} nt={}", idx, if nt & C17.bit() != 0 || nt & (1 << 20) != 0 { 1 } else { 0 }).unwrap();
        f.flush().unwrap();
    }
}
