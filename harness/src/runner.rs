//! Running one case; the proptest-driven worker; replay.

use crate::elems::*;
use crate::gen;
use crate::instr::*;
use crate::interp::*;
use crate::ops::*;
use proptest::test_runner::{Config, RngAlgorithm, RngSeed, TestCaseError, TestError, TestRng, TestRunner};
use serde_json::{json, Value};
use std::collections::BTreeSet;

pub struct Outcome {
    pub stats: Stats,
    pub fail: Option<Fail>,
    pub ops_done: usize,
    /// a work/progress failure not owned by the focused property (the case went on)
    pub deferred: Option<Fail>,
}

pub fn run_case(case: &Case, big: bool) -> Outcome {
    run_case_focus(case, big, None)
}

pub fn run_case_focus(case: &Case, big: bool, focus: Option<Prop>) -> Outcome {
    match case.family {
        Family::P => run_case_f::<FamP>(case, big, focus),
        Family::T => run_case_f::<FamT>(case, big, focus),
    }
}

pub fn run_case_f<F: Fam>(case: &Case, big: bool, focus: Option<Prop>) -> Outcome {
    fuse_off();
    let mut ctx: Ctx<F> = Ctx::new(case);
    ctx.big = big;
    ctx.focus = focus;
    let trace = std::env::var_os("GV_TRACE").is_some();
    let _ = take_deferred();
    for (i, op) in case.ops.iter().enumerate() {
        if trace {
            eprintln!("#{} {:?}\n     before: {:?} | {:?} | sets {:?} | {:?}", i, op, ctx.st(0), ctx.st(1), ctx.st(2), ctx.st(3));
        }
        if let Err(f) = ctx.step(i, op) {
            let stats = ctx.stats.clone();
            let deferred = ctx.deferred.take();
            if focus == Some(Prop::C06) && !f.has(Prop::C06) {
                // see Ctx::salvage_teardown: a leak or double drop must not hide behind `f`
                let f = match ctx.salvage_teardown(&f) {
                    Some(own) => own,
                    None => f,
                };
                return Outcome { stats, fail: Some(f), ops_done: i, deferred };
            }
            // the maps may be inconsistent: leak them rather than run destructors on bad state
            std::mem::forget(ctx);
            return Outcome { stats, fail: Some(f), ops_done: i, deferred };
        }
    }
    let n = case.ops.len();
    match ctx.finish() {
        Ok(stats) => Outcome { stats, fail: None, ops_done: n, deferred: take_deferred() },
        Err(f) => Outcome { stats: Stats::default(), fail: Some(f), ops_done: n, deferred: take_deferred() },
    }
}

pub struct WorkerCfg {
    pub prop: Prop,
    pub thorough: bool,
    pub seed: u64,
    pub cases: u32,
    /// signatures of known findings for this property (excluded from the search)
    pub known: Vec<String>,
    /// write every case here before executing it (out-of-process failure attribution)
    pub current: Option<String>,
    /// generate with the profile of another property (diagnostics)
    pub profile: Option<Prop>,
    /// file to write the running case to if it exceeds the per-case time limit (then exit 3)
    pub hang_marker: Option<String>,
}

pub fn stats_json(st: &Stats) -> Value {
    json!({
        "calls": st.calls,
        "ops": st.ops,
        "calls_by_phase": {"no_resize": st.phase[0], "resize_just_started": st.phase[1], "partly_moved": st.phase[2], "old_table_emptied_not_freed": st.phase[3]},
        "point_calls_by_key_location": {"absent": st.loc[0], "main": st.loc[1], "old": st.loc[2]},
        "calls_by_size_class": {"lt16": st.size[0], "lt128": st.size[1], "lt1024": st.size[2], "lt8192": st.size[3], "lt65536": st.size[4], "ge65536": st.size[5]},
        "key_adding_calls_at_L_gt_0": st.key_adding_at_l,
        "max_len": st.max_len,
        "max_len_at_key_adding_call_with_L_gt_0": st.max_len_key_adding_at_l,
        "episodes_started": st.episodes_started,
        "episodes_finished": {"by_carry": st.episodes_finished[0], "by_removals": st.episodes_finished[1], "emptied_by_retain_then_insert": st.episodes_finished[2], "by_clear_or_drain": st.episodes_finished[3], "by_reserve": st.episodes_finished[4], "other": st.episodes_finished[5]},
        "ops_with_a_call_at_L_gt_0": st.ops_at_l,
        "probes": st.probes,
        "probes_at_L_gt_0": st.probes_at_l,
        "entry_chains_on_old_table_ge_32_buckets": st.old32_chain,
        "faults_injected": st.faults,
        "ops_by_kind": st.by_op,
        "excluded_by_known_finding": st.excluded_known,
        "calls_continued_past_a_short_cursor_owned_by_C05": st.soft_cursor_desync,
        "foreign_work_or_progress_failures_not_ending_the_case": st.deferred_foreign,
    })
}

/// Watchdog: if one case runs longer than `limit_s`, the process writes `<marker>` (the case that
/// was running) and exits with status 3. The driver reports that as inconclusive, never as a
/// violation.
pub struct Watchdog {
    pub tick: std::sync::Arc<std::sync::atomic::AtomicU64>,
    pub current: std::sync::Arc<std::sync::Mutex<String>>,
}

impl Watchdog {
    pub fn start(marker: String, limit_s: u64) -> Watchdog {
        use std::sync::atomic::{AtomicU64, Ordering};
        let tick = std::sync::Arc::new(AtomicU64::new(0));
        let current = std::sync::Arc::new(std::sync::Mutex::new(String::new()));
        let (t2, c2) = (tick.clone(), current.clone());
        std::thread::spawn(move || {
            let mut last = u64::MAX;
            let mut since = std::time::Instant::now();
            loop {
                std::thread::sleep(std::time::Duration::from_millis(500));
                let now = t2.load(Ordering::Relaxed);
                if now != last {
                    last = now;
                    since = std::time::Instant::now();
                } else if now != 0 && since.elapsed().as_secs() >= limit_s {
                    let case = c2.lock().map(|g| g.clone()).unwrap_or_default();
                    let _ = std::fs::write(&marker, case);
                    std::process::exit(3);
                }
            }
        });
        Watchdog { tick, current }
    }
    pub fn begin(&self, case_json: impl FnOnce() -> String) {
        if let Ok(mut g) = self.current.lock() {
            *g = case_json();
        }
        self.tick.fetch_add(1, std::sync::atomic::Ordering::Relaxed);
    }
}

pub fn case_time_limit(thorough: bool) -> u64 {
    std::env::var("GV_CASE_LIMIT_S").ok().and_then(|s| s.parse().ok()).unwrap_or(if thorough { 900 } else { 90 })
}

pub fn worker(cfg: &WorkerCfg) -> Value {
    let gp = cfg.profile.unwrap_or(cfg.prop);
    let mut profile = gen::profile(gp, cfg.thorough);
    if std::env::var_os("GV_NO_BIG").is_some() {
        // sanitizer flavours: no 10^5-element starting maps
        profile.big_cases = false;
    }
    if std::env::var_os("GV_MIRI_PROFILE").is_some() {
        // Miri executes ~100 checked operations per second: small maps, short histories
        profile.many_max = 18;
        profile.max_ops = 16;
        profile.medium_max = 40;
        profile.w.fill = 0;
        profile.w.churn = 0;
        profile.w.probe = 0;
    }
    let strat = if gp == C14 { gen::c14_case_strategy(cfg.thorough) } else { gen::case_strategy(&profile) };
    let mut seed_bytes = [0u8; 32];
    let s = splitmix(cfg.seed ^ 0xA5A5_0000 ^ ((cfg.prop as u64) << 40));
    for i in 0..4 {
        seed_bytes[i * 8..i * 8 + 8].copy_from_slice(&splitmix(s.wrapping_add(i as u64)).to_le_bytes());
    }
    let config = Config {
        cases: cfg.cases,
        failure_persistence: None,
        max_shrink_iters: 3000,
        max_shrink_time: 0,
        rng_seed: RngSeed::Fixed(s),
        ..Config::default()
    };
    let rng = TestRng::from_seed(RngAlgorithm::ChaCha, &seed_bytes);
    let mut runner = TestRunner::new_with_rng(config, rng);
    struct Acc {
        total: Stats,
        evaluations: u64,
        nontrivial: BTreeSet<u64>,
        samples: Vec<String>,
        first_nt: Option<Value>,
        foreign: Vec<String>,
        foreign_n: u64,
        known_hits: BTreeSet<String>,
        failing: bool,
        first_fail: Option<Fail>,
        slowest: (f64, String),
    }
    let acc = std::cell::RefCell::new(Acc {
        total: Stats::default(),
        evaluations: 0,
        nontrivial: BTreeSet::new(),
        samples: Vec::new(),
        first_nt: None,
        foreign: Vec::new(),
        foreign_n: 0,
        known_hits: BTreeSet::new(),
        failing: false,
        first_fail: None,
        slowest: (0.0, String::new()),
    });
    let prop = cfg.prop;
    let big = cfg.thorough;
    let known = cfg.known.clone();
    let current = cfg.current.clone();
    let wd = cfg.hang_marker.clone().map(|m| Watchdog::start(m, case_time_limit(cfg.thorough)));
    let result = runner.run(&strat, |case| {
        if let Some(w) = &wd {
            w.begin(|| serde_json::to_string(&case).unwrap_or_default());
        }
        if let Some(p) = &current {
            let _ = std::fs::write(p, serde_json::to_string(&case).unwrap_or_default());
        }
        let t0 = std::time::Instant::now();
        let out = run_case_focus(&case, big, Some(prop));
        let dt = t0.elapsed().as_secs_f64();
        let mut a = acc.borrow_mut();
        if dt > a.slowest.0 {
            a.slowest = (dt, case.render(30));
        }
        if !a.failing {
            a.evaluations += 1;
            a.total.merge(&out.stats);
            if out.stats.nontrivial & prop.bit() != 0 {
                a.nontrivial.insert(case.hash64());
                if a.first_nt.is_none() {
                    a.first_nt = Some(json!({"rendered": case.render(40), "ops": case.ops.len()}));
                }
            }
            if a.samples.len() < 3 {
                a.samples.push(case.render(12));
            }
        }
        if let Some(df) = &out.deferred {
            if !a.failing {
                a.foreign_n += 1;
                if a.foreign.len() < 5 {
                    a.foreign.push(format!("(case continued) {}", df.describe()));
                }
            }
        }
        if let Some(f) = out.fail {
            if f.has(prop) {
                if known.iter().any(|k| *k == f.signature()) {
                    if !a.failing {
                        a.total.excluded_known += 1;
                        a.known_hits.insert(f.signature());
                    }
                    return Ok(());
                }
                if !a.failing {
                    a.failing = true;
                    a.first_fail = Some(f.clone());
                }
                return Err(TestCaseError::fail(f.describe()));
            } else if !a.failing {
                a.foreign_n += 1;
                if a.foreign.len() < 5 {
                    a.foreign.push(f.describe());
                }
            }
        }
        Ok(())
    });
    let Acc { total, evaluations, nontrivial, samples, first_nt, foreign, foreign_n, known_hits, first_fail, slowest, .. } = acc.into_inner();
    let mut violation = Value::Null;
    if let Err(e) = result {
        match e {
            TestError::Fail(reason, case) => {
                // re-run the minimal case to get its own failure description
                let out = run_case_focus(&case, big, Some(prop));
                let desc = out.fail.as_ref().map(|f| f.describe()).unwrap_or_else(|| reason.message().to_string());
                let sig = out.fail.as_ref().map(|f| f.signature()).unwrap_or_default();
                violation = json!({
                    "case": serde_json::to_value(&case).unwrap(),
                    "describe": desc,
                    "signature": sig,
                    "first_failure": first_fail.as_ref().map(|f| f.describe()),
                    "rendered": case.render(60),
                });
            }
            TestError::Abort(reason) => {
                violation = json!({"abort": reason.message().to_string()});
            }
        }
    }
    json!({
        "prop": prop.name(),
        "evaluations": evaluations,
        "nontrivial_hashes": nontrivial.iter().map(|h| format!("{:016x}", h)).collect::<Vec<_>>(),
        "samples": samples,
        "first_nontrivial": first_nt,
        "stats": stats_json(&total),
        "foreign_failures": foreign_n,
        "foreign_examples": foreign,
        "known_hits": known_hits.into_iter().collect::<Vec<_>>(),
        "violation": violation,
        "slowest_case_seconds_diagnostic": slowest.0,
        "slowest_case_diagnostic": slowest.1,
    })
}

/// strict replay of one saved case: returns the failure (any property) if there is one
pub fn replay(case: &Case, big: bool, focus: Option<Prop>) -> Outcome {
    run_case_focus(case, big, focus)
}
