//! rayon (C15) and serde (C16) checks, run on whatever state the history has reached.

use crate::elems::*;
use crate::instr::*;
use crate::interp::*;
use rayon::iter::{FromParallelIterator, IntoParallelIterator, IntoParallelRefIterator, IntoParallelRefMutIterator, ParallelExtend, ParallelIterator};
use serde_test::Token;
use std::cell::RefCell;
use std::collections::{BTreeMap, BTreeSet};
use std::sync::Arc;

thread_local! {
    static POOLS: RefCell<BTreeMap<usize, Arc<rayon::ThreadPool>>> = RefCell::new(BTreeMap::new());
}

/// a key whose `Eq` and `Hash` ignore `tag`
#[derive(Clone, Copy, Debug)]
pub struct TagKey {
    pub k: u32,
    pub tag: u32,
}
impl PartialEq for TagKey {
    fn eq(&self, o: &TagKey) -> bool {
        self.k == o.k
    }
}
impl Eq for TagKey {}
impl std::hash::Hash for TagKey {
    fn hash<H: std::hash::Hasher>(&self, h: &mut H) {
        h.write_u32(self.k);
    }
}

const POOL_SIZES: [usize; 9] = [1, 2, 3, 4, 8, 16, 5, 7, 32];

pub(crate) fn pool(threads: u8) -> Arc<rayon::ThreadPool> {
    let n = POOL_SIZES[threads as usize % POOL_SIZES.len()];
    POOLS.with(|p| {
        p.borrow_mut()
            .entry(n)
            .or_insert_with(|| Arc::new(rayon::ThreadPoolBuilder::new().num_threads(n).build().expect("thread pool")))
            .clone()
    })
}

fn sorted<T: Ord>(mut v: Vec<T>) -> Vec<T> {
    v.sort_unstable();
    v
}

fn guarded<R>(f: impl FnOnce() -> R) -> Result<R, (String, String)> {
    let prevq = panic_quiet(true);
    let _ = take_last_panic();
    let r = std::panic::catch_unwind(std::panic::AssertUnwindSafe(f));
    panic_quiet(prevq);
    r.map_err(|payload| {
        let last = take_last_panic().unwrap_or_default();
        // panics on rayon worker threads are re-thrown here with their payload only
        let msg = if let Some(s) = payload.downcast_ref::<&str>() {
            (*s).to_string()
        } else if let Some(s) = payload.downcast_ref::<String>() {
            s.clone()
        } else {
            last.0.clone()
        };
        (msg, norm_loc(&last.1))
    })
}

impl<F: Fam> Ctx<F> {
    pub fn do_par_check(&mut self, s: usize, threads: u8, reps: u8) -> Result<(), Fail> {
        if F::K::TRACKED {
            // the tracked family's ledger is thread-local; rayon checks run on the plain family
            return Ok(());
        }
        if self.st(s).l() > 0 {
            self.nt(C15);
        }
        let p = pool(threads);
        let reps = (reps % 8).max(1);
        let other = 1 - s;
        for rep in 0..reps {
            let want: Vec<(u32, u32)> = self.slots[s].model.iter().map(|(k, e)| (*k, e.v)).collect();
            let want_keys: Vec<u32> = want.iter().map(|x| x.0).collect();
            let want_vals: Vec<u32> = sorted(want.iter().map(|x| x.1).collect());
            let r = guarded(|| {
                let (a, b) = self.slots.split_at_mut(1);
                let (m, o) = if s == 0 { (&mut a[0].map, &b[0].map) } else { (&mut b[0].map, &a[0].map) };
                p.install(|| -> Result<(), String> {
                    let got: Vec<(u32, u32)> = sorted(m.par_iter().map(|(k, v)| (k.k(), v.v())).collect());
                    if got != want {
                        return Err(format!("par_iter yielded {} pairs, sequential reference has {}", got.len(), want.len()));
                    }
                    let got: Vec<(u32, u32)> = sorted((&*m).into_par_iter().map(|(k, v)| (k.k(), v.v())).collect());
                    if got != want {
                        return Err(format!("(&map).into_par_iter yielded {} pairs, reference {}", got.len(), want.len()));
                    }
                    let got: Vec<u32> = sorted(m.par_keys().map(|k| k.k()).collect());
                    if got != want_keys {
                        return Err(format!("par_keys yielded {} keys, reference {}", got.len(), want_keys.len()));
                    }
                    let got: Vec<u32> = sorted(m.par_values().map(|v| v.v()).collect());
                    if got != want_vals {
                        return Err(format!("par_values yielded {} values, reference {}", got.len(), want_vals.len()));
                    }
                    // mutable traversals: every element visited exactly once
                    let visited: Vec<u32> = sorted(
                        m.par_iter_mut()
                            .map(|(k, v)| {
                                let x = v.v();
                                v.set(x.wrapping_add(1));
                                k.k()
                            })
                            .collect(),
                    );
                    if visited != want_keys {
                        return Err(format!("par_iter_mut visited {} elements ({} distinct), map has {}", visited.len(), visited.iter().collect::<BTreeSet<_>>().len(), want_keys.len()));
                    }
                    let visited: Vec<u32> = sorted(
                        (&mut *m)
                            .into_par_iter()
                            .map(|(k, v)| {
                                let x = v.v();
                                v.set(x.wrapping_add(1));
                                k.k()
                            })
                            .collect(),
                    );
                    if visited != want_keys {
                        return Err(format!("(&mut map).into_par_iter visited {} elements, map has {}", visited.len(), want_keys.len()));
                    }
                    let cnt = m
                        .par_values_mut()
                        .map(|v| {
                            let x = v.v();
                            v.set(x.wrapping_add(1));
                            1usize
                        })
                        .sum::<usize>();
                    if cnt != want_keys.len() {
                        return Err(format!("par_values_mut visited {} values, map has {}", cnt, want_keys.len()));
                    }
                    let after: Vec<(u32, u32)> = sorted(m.iter().map(|(k, v)| (k.k(), v.v())).collect());
                    let expect: Vec<(u32, u32)> = want.iter().map(|(k, v)| (*k, v.wrapping_add(3))).collect();
                    if after != expect {
                        return Err("writes made through the parallel mutable iterators are not all visible (or applied twice)".to_string());
                    }
                    // other kinds of consumer: reductions, a counting for_each, short-circuiting searches
                    // (their consumers report `full()` and order their halves, unlike collect)
                    {
                        use std::sync::atomic::{AtomicUsize, Ordering};
                        let seq_max = expect.iter().map(|x| x.0).max();
                        let seq_min = expect.iter().map(|x| x.0).min();
                        if m.par_keys().map(|k| k.k()).max() != seq_max || m.par_keys().map(|k| k.k()).min() != seq_min {
                            return Err("par_keys().max()/min() differ from the sequential extremes".to_string());
                        }
                        let seq_sum: u64 = expect.iter().map(|x| x.1 as u64).sum();
                        let par_sum: u64 = m.par_values().map(|v| v.v() as u64).sum();
                        if par_sum != seq_sum {
                            return Err(format!("sum over par_values is {}, sequential {}", par_sum, seq_sum));
                        }
                        let cnt = AtomicUsize::new(0);
                        m.par_iter().for_each(|_| {
                            cnt.fetch_add(1, Ordering::Relaxed);
                        });
                        if cnt.load(Ordering::Relaxed) != expect.len() {
                            return Err(format!("par_iter().for_each ran {} times, map has {}", cnt.load(Ordering::Relaxed), expect.len()));
                        }
                        if !m.par_iter().all(|(k, v)| expect.binary_search(&(k.k(), v.v())).is_ok()) {
                            return Err("par_iter().all: an element that the map does not hold was visited".to_string());
                        }
                        if !expect.is_empty() {
                            let n = expect.len();
                            for idx in [0, n / 2, n - 1, (rep as usize * 11 + 3) % n] {
                                let (tk, tv) = expect[idx];
                                let f_any = m.par_iter().find_any(|(k, _)| k.k() == tk).map(|(_, v)| v.v());
                                let f_first = m.par_iter().find_first(|(k, _)| k.k() == tk).map(|(_, v)| v.v());
                                let f_last = m.par_iter().find_last(|(k, _)| k.k() == tk).map(|(_, v)| v.v());
                                if f_any != Some(tv) || f_first != Some(tv) || f_last != Some(tv) {
                                    return Err(format!("find_any/find_first/find_last for a present key gave {:?}/{:?}/{:?}, expected {:?}", f_any, f_first, f_last, Some(tv)));
                                }
                                if !m.par_keys().any(|k| k.k() == tk) {
                                    return Err("par_keys().any() misses a present key".to_string());
                                }
                            }
                            if m.par_iter().find_first(|_| true).is_none() || m.par_iter().find_last(|_| true).is_none() {
                                return Err("find_first/find_last(|_| true) found nothing in a non-empty map".to_string());
                            }
                        }
                        if m.par_iter().find_any(|(k, _)| k.k() == 0x7fff_fff0).is_some() || m.par_keys().any(|k| k.k() == 0x7fff_fff0) {
                            return Err("a search for an absent key found something".to_string());
                        }
                        // position-dependent consumers: enumerate-free partition and filter counts
                        let (ev, od): (Vec<u32>, Vec<u32>) = m.par_keys().map(|k| k.k()).partition(|k| k % 2 == 0);
                        if ev.len() + od.len() != expect.len() || ev.len() != expect.iter().filter(|x| x.0 % 2 == 0).count() {
                            return Err(format!("partition over par_keys gave {} + {} keys, map has {}", ev.len(), od.len(), expect.len()));
                        }
                    }
                    // par_eq against sequential ==
                    let pe = m.par_eq(o);
                    let se = *m == *o;
                    if pe != se || !m.par_eq(m) {
                        return Err(format!("par_eq = {}, == is {}", pe, se));
                    }
                    // ... and against near-copies in the other phase (a clone is never split): equal,
                    // one value changed, one key exchanged (same length), one pair fewer
                    {
                        let eqc = m.clone();
                        if !eqc.par_eq(m) || !m.par_eq(&eqc) {
                            return Err("par_eq is false between a map and its clone".to_string());
                        }
                        if !want_keys.is_empty() {
                            let idx = (rep as usize * 7 + want_keys.len() / 2) % want_keys.len();
                            let mut c = m.clone();
                            for (i, (_, v)) in c.iter_mut().enumerate() {
                                if i == idx {
                                    let x = v.v();
                                    v.set(x ^ 0x0055_0000);
                                }
                            }
                            if c.par_eq(m) || m.par_eq(&c) || c == *m {
                                return Err(format!("par_eq/== is true between a map and a copy in which one value differs (copy.par_eq(map) = {}, map.par_eq(copy) = {})", c.par_eq(m), m.par_eq(&c)));
                            }
                            let mut c = m.clone();
                            let victim = c.keys().nth(idx).map(|k| k.k());
                            if let Some(vk) = victim {
                                let gone = c.remove(&F::K::mk(vk));
                                if c.par_eq(m) || m.par_eq(&c) {
                                    return Err("par_eq is true between a map and a copy with one pair fewer".to_string());
                                }
                                if let Some(v) = gone {
                                    c.insert(F::K::mk(0x7200_0000 + rep as u32), v);
                                    if c.par_eq(m) || m.par_eq(&c) || c == *m {
                                        return Err(format!("par_eq/== is true between a map and a copy of the same length in which one key differs (copy.par_eq(map) = {}, map.par_eq(copy) = {})", c.par_eq(m), m.par_eq(&c)));
                                    }
                                }
                            }
                        }
                    }
                    // values whose == is not reflexive (f64 NaN): par_eq has to agree with == there too
                    {
                        type FM = griddle::HashMap<u32, f64, std::hash::BuildHasherDefault<std::collections::hash_map::DefaultHasher>>;
                        let mut fm = FM::default();
                        for (k, v) in expect.iter().take(300) {
                            fm.insert(*k, *v as f64);
                        }
                        let agree = |a: &FM, b: &FM| a.par_eq(b) == (*a == *b);
                        if !agree(&fm, &fm) || !fm.par_eq(&fm) {
                            return Err("par_eq(self, self) disagrees with == on a map of float values".to_string());
                        }
                        if let Some((k0, _)) = expect.get(rep as usize % expect.len().max(1)).filter(|x| fm.contains_key(&x.0)) {
                            let plain = fm.clone();
                            *fm.get_mut(k0).unwrap() = f64::NAN;
                            let c = fm.clone();
                            if !agree(&fm, &fm) || !agree(&fm, &c) || !agree(&c, &fm) || !agree(&fm, &plain) || !agree(&plain, &fm) {
                                return Err(format!("par_eq disagrees with == when a value is NaN: par_eq(self, self) = {}, self == self is {}", fm.par_eq(&fm), fm == fm));
                            }
                        }
                    }
                    // par_extend / from_par_iter against their sequential counterparts
                    let items: Vec<(F::K, F::V)> = (0..24u32)
                        .map(|i| {
                            let k = if i % 3 == 0 && !want_keys.is_empty() { want_keys[(i as usize * 7) % want_keys.len()] } else { 0x7000_0000 + i + rep as u32 * 100 };
                            (F::K::mk(k), F::V::mk(i))
                        })
                        .collect();
                    let mut c1 = m.clone();
                    let mut c2 = m.clone();
                    c1.par_extend(items.clone());
                    c2.extend(items.clone());
                    if c1 != c2 || c2 != c1 || c1.len() != c2.len() {
                        return Err(format!("par_extend built a map of {} elements, extend {}", c1.len(), c2.len()));
                    }
                    // the by-reference form (Copy elements), onto the map itself being mid-resize or not
                    let mut c3 = m.clone();
                    if F::par_extend_ref(&mut c3, &items) && (c3 != c2 || c2 != c3 || c3.len() != c2.len()) {
                        return Err(format!("par_extend of (&K, &V) built a map of {} elements, extend {}", c3.len(), c2.len()));
                    }
                    // a cloned parallel iterator is a second, complete traversal
                    let pi = m.par_iter();
                    let pc = pi.clone();
                    let (n1, n2) = (pi.count(), pc.count());
                    let (k1, v1) = (m.par_keys().clone().count(), m.par_values().clone().count());
                    if n1 != want.len() || n2 != want.len() || k1 != want.len() || v1 != want.len() {
                        return Err(format!("cloned parallel iterators counted {} / {} / {} / {} elements, map has {}", n1, n2, k1, v1, want.len()));
                    }
                    // sources that repeat keys (last pair wins, as with extend), of odd and even
                    // lengths so that rayon splits them into pieces of unequal size
                    for len in [3usize, 5, 9 + rep as usize, 14 + (want.len() % 7), 33] {
                        let dups: Vec<(F::K, F::V)> = (0..len as u32).map(|i| (F::K::mk(0x7600_0000 + (i * 7 + rep as u32) % 3), F::V::mk(i))).collect();
                        let mut d1 = m.clone();
                        let mut d2 = m.clone();
                        d1.par_extend(dups.clone());
                        d2.extend(dups.clone());
                        let g1 = Map::<F>::from_par_iter(dups.clone());
                        let g2: Map<F> = dups.into_iter().collect();
                        if d1 != d2 || d2 != d1 || g1 != g2 || g2 != g1 {
                            return Err(format!("par_extend / from_par_iter of {} pairs over 3 repeated keys differs from extend / from_iter (the last pair for a key must win)", len));
                        }
                    }
                    // keys that are equal but distinguishable (Eq / Hash ignore the tag): the parallel
                    // constructors have to keep the same key object as the sequential ones (the
                    // first one inserted) together with the last value
                    {
                        type TM = griddle::HashMap<TagKey, u32, std::hash::BuildHasherDefault<std::collections::hash_map::DefaultHasher>>;
                        for len in [4usize, 7, 12 + rep as usize, 31] {
                            let src: Vec<(TagKey, u32)> = (0..len as u32).map(|i| (TagKey { k: (i * 5 + rep as u32) % 4, tag: i }, i)).collect();
                            let render = |m: &TM| -> Vec<(u32, u32, u32)> { sorted(m.iter().map(|(k, v)| (k.k, k.tag, *v)).collect()) };
                            let seq: TM = src.iter().copied().collect();
                            let par = TM::from_par_iter(src.clone());
                            let mut e1 = TM::default();
                            e1.insert(TagKey { k: 1, tag: 999 }, 0);
                            let mut e2 = e1.clone();
                            e1.extend(src.iter().copied());
                            e2.par_extend(src.clone());
                            if render(&seq) != render(&par) || render(&e1) != render(&e2) {
                                return Err(format!("from_par_iter / par_extend of {} pairs over 4 repeated, distinguishable keys keep other key objects or values than from_iter / extend: {:?} vs {:?}", len, render(&par), render(&seq)));
                            }
                        }
                    }
                    let f1 = Map::<F>::from_par_iter(items.clone());
                    let f2: Map<F> = items.into_iter().collect();
                    if f1 != f2 || f1.len() != f2.len() {
                        return Err(format!("from_par_iter built {} elements, from_iter {}", f1.len(), f2.len()));
                    }
                    Ok(())
                })
            });
            match r {
                Err((msg, loc)) => fail!(self, [C15], "unexpected-panic", "parallel operation panicked: {} at {}", msg, loc),
                Ok(Err(msg)) => fail!(self, [C15], "rayon-mismatch", "{} (pool of {} threads, repetition {})", msg, POOL_SIZES[threads as usize % POOL_SIZES.len()], rep),
                Ok(Ok(())) => {}
            }
            for e in self.slots[s].model.values_mut() {
                e.v = e.v.wrapping_add(3);
            }
            let _ = other;
        }
        self.full_check(s, &[C15])
    }

    pub fn do_set_par(&mut self, threads: u8, reps: u8) -> Result<(), Fail> {
        if F::K::TRACKED {
            return Ok(());
        }
        if self.st(2).l() > 0 || self.st(3).l() > 0 {
            self.nt(C15);
        }
        let p = pool(threads);
        let reps = (reps % 8).max(1);
        let ma: BTreeSet<u32> = self.sets[0].model.keys().copied().collect();
        let mb: BTreeSet<u32> = self.sets[1].model.keys().copied().collect();
        for rep in 0..reps {
            let r = guarded(|| {
                p.install(|| -> Result<(), String> {
                    for order in 0..2 {
                        let (x, y, mx, my) = if order == 0 { (&self.sets[0].set, &self.sets[1].set, &ma, &mb) } else { (&self.sets[1].set, &self.sets[0].set, &mb, &ma) };
                        let chk = |name: &str, got: Vec<u32>, want: Vec<u32>| -> Result<(), String> {
                            let g = sorted(got);
                            if g != want {
                                Err(format!("{} (order {}) yielded {} elements, expected {}", name, order, g.len(), want.len()))
                            } else {
                                Ok(())
                            }
                        };
                        chk("par_iter", x.par_iter().map(|k| k.k()).collect(), mx.iter().copied().collect())?;
                        chk("par_union", x.par_union(y).map(|k| k.k()).collect(), mx.union(my).copied().collect())?;
                        chk("par_intersection", x.par_intersection(y).map(|k| k.k()).collect(), mx.intersection(my).copied().collect())?;
                        chk("par_difference", x.par_difference(y).map(|k| k.k()).collect(), mx.difference(my).copied().collect())?;
                        chk("par_symmetric_difference", x.par_symmetric_difference(y).map(|k| k.k()).collect(), mx.symmetric_difference(my).copied().collect())?;
                        {
                            // other consumers over the algebra iterators: counts, searches, reductions
                            let cu = x.par_union(y).count();
                            let ci = x.par_intersection(y).count();
                            let cd = x.par_difference(y).count();
                            let cs = x.par_symmetric_difference(y).count();
                            if cu != mx.union(my).count() || ci != mx.intersection(my).count() || cd != mx.difference(my).count() || cs != mx.symmetric_difference(my).count() {
                                return Err(format!("count() over par_union/intersection/difference/symmetric_difference (order {}) = {}/{}/{}/{}", order, cu, ci, cd, cs));
                            }
                            if x.par_iter().map(|k| k.k()).max() != mx.iter().next_back().copied() || x.par_union(y).map(|k| k.k()).max() != mx.union(my).max().copied() {
                                return Err(format!("max() over par_iter/par_union (order {}) differs from the reference", order));
                            }
                            for probe in mx.iter().take(1).chain(mx.iter().rev().take(1)).chain(my.iter().skip(my.len() / 2).take(1)) {
                                let pr = *probe;
                                if x.par_iter().find_any(|k| k.k() == pr).is_some() != mx.contains(&pr)
                                    || x.par_union(y).find_first(|k| k.k() == pr).is_none()
                                    || x.par_intersection(y).any(|k| k.k() == pr) != (mx.contains(&pr) && my.contains(&pr))
                                    || x.par_difference(y).find_last(|k| k.k() == pr).is_some() != (mx.contains(&pr) && !my.contains(&pr))
                                    || x.par_symmetric_difference(y).any(|k| k.k() == pr) != (mx.contains(&pr) ^ my.contains(&pr))
                                {
                                    return Err(format!("a search through the parallel set iterators (order {}) disagrees with the reference for element {}", order, pr));
                                }
                            }
                        }
                        let preds = [
                            ("par_is_subset", x.par_is_subset(y), x.is_subset(y), mx.is_subset(my)),
                            ("par_is_superset", x.par_is_superset(y), x.is_superset(y), mx.is_superset(my)),
                            ("par_is_disjoint", x.par_is_disjoint(y), x.is_disjoint(y), mx.is_disjoint(my)),
                            ("par_eq", x.par_eq(y), x == y, mx == my),
                        ];
                        for (name, par, seq, model) in preds {
                            if par != seq || par != model {
                                return Err(format!("{} (order {}) = {}, sequential {}, reference {}", name, order, par, seq, model));
                            }
                        }
                        // the predicates against near-copies of x in the other phase (a clone is never
                        // split): equal, one element fewer, one element exchanged, all elements fresh
                        {
                            let idx = if mx.is_empty() { 0 } else { (rep as usize * 5 + mx.len() / 2) % mx.len() };
                            let mut variants: Vec<(&str, Set<F>, BTreeSet<u32>)> = Vec::with_capacity(4);
                            variants.push(("an equal copy", x.clone(), mx.clone()));
                            if let Some(vk) = mx.iter().nth(idx).copied() {
                                let mut c = x.clone();
                                let mut mc = mx.clone();
                                c.remove(&F::K::mk(vk));
                                mc.remove(&vk);
                                variants.push(("a copy with one element fewer", c.clone(), mc.clone()));
                                c.insert(F::K::mk(0x7300_0000 + rep as u32));
                                mc.insert(0x7300_0000 + rep as u32);
                                variants.push(("a copy with one element exchanged", c, mc));
                                if mx.len() <= 512 {
                                    let fresh: BTreeSet<u32> = (0..mx.len() as u32).map(|i| 0x7400_0000 + i).collect();
                                    let fs: Set<F> = fresh.iter().map(|k| F::K::mk(*k)).collect();
                                    variants.push(("a set of as many fresh elements", fs, fresh));
                                }
                            }
                            for (what, c, mc) in variants.iter() {
                                for dir in 0..2 {
                                    let (p, q, mp, mq) = if dir == 0 { (x, c, mx, mc) } else { (c, x, mc, mx) };
                                    let preds = [
                                        ("par_is_subset", p.par_is_subset(q), p.is_subset(q), mp.is_subset(mq)),
                                        ("par_is_superset", p.par_is_superset(q), p.is_superset(q), mp.is_superset(mq)),
                                        ("par_is_disjoint", p.par_is_disjoint(q), p.is_disjoint(q), mp.is_disjoint(mq)),
                                        ("par_eq", p.par_eq(q), p == q, mp == mq),
                                    ];
                                    for (name, par, seq, model) in preds {
                                        if par != seq || par != model {
                                            return Err(format!("{} between the set and {} (direction {}) = {}, sequential {}, reference {}", name, what, dir, par, seq, model));
                                        }
                                    }
                                }
                            }
                        }
                        let items: Vec<F::K> = (0..16u32).map(|i| F::K::mk(if i % 2 == 0 { 0x7100_0000 + i } else { mx.iter().next().copied().unwrap_or(5) })).collect();
                        let mut c1 = x.clone();
                        let mut c2 = x.clone();
                        c1.par_extend(items.clone());
                        c2.extend(items.clone());
                        if c1 != c2 || c1.len() != c2.len() {
                            return Err(format!("set par_extend built {} elements, extend {}", c1.len(), c2.len()));
                        }
                        let mut c3 = x.clone();
                        if F::set_par_extend_ref(&mut c3, &items) && (c3 != c2 || c3.len() != c2.len()) {
                            return Err(format!("set par_extend of &T built {} elements, extend {}", c3.len(), c2.len()));
                        }
                        chk("(&set).into_par_iter", x.into_par_iter().map(|k| k.k()).collect(), mx.iter().copied().collect())?;
                        let f1 = Set::<F>::from_par_iter(items.clone());
                        let f2: Set<F> = items.into_iter().collect();
                        if f1 != f2 {
                            return Err("set from_par_iter differs from from_iter".to_string());
                        }
                    }
                    Ok(())
                })
            });
            match r {
                Err((msg, loc)) => fail!(self, [C15], "unexpected-panic", "parallel set operation panicked: {} at {}", msg, loc),
                Ok(Err(msg)) => fail!(self, [C15], "rayon-mismatch", "{} (pool of {} threads, repetition {})", msg, POOL_SIZES[threads as usize % POOL_SIZES.len()], rep),
                Ok(Ok(())) => {}
            }
        }
        Ok(())
    }

    pub fn do_serde_check(&mut self, s: usize) -> Result<(), Fail> {
        if self.st(s).l() > 0 {
            self.nt(C16);
        }
        let n = self.slots[s].map.len();
        let r = guarded(|| -> Result<(), String> {
            let m = &self.slots[s].map;
            // exact length, every element once, in iteration order
            let mut tokens: Vec<Token> = Vec::with_capacity(2 * n + 2);
            tokens.push(Token::Map { len: Some(n) });
            for (k, v) in m.iter() {
                tokens.push(Token::U32(k.k()));
                tokens.push(Token::U32(v.v()));
            }
            tokens.push(Token::MapEnd);
            serde_test::assert_ser_tokens(m, &tokens);
            serde_test::assert_de_tokens(m, &tokens);
            let json = serde_json::to_string(m).map_err(|e| format!("serialisation failed: {}", e))?;
            let back: Map<F> = serde_json::from_str(&json).map_err(|e| format!("deserialisation failed: {}", e))?;
            if back != *m || *m != back || back.len() != n {
                return Err(format!("JSON round trip gave a map of {} elements that is != the original of {}", back.len(), n));
            }
            let got: Vec<(u32, u32)> = sorted(back.iter().map(|(k, v)| (k.k(), v.v())).collect());
            let want: Vec<(u32, u32)> = self.slots[s].model.iter().map(|(k, e)| (*k, e.v)).collect();
            if got != want {
                return Err("JSON round trip changed the contents".to_string());
            }
            Ok(())
        });
        match r {
            Err((msg, loc)) => fail!(self, [C16], "serde-assert", "serde check panicked: {} at {}", msg, loc),
            Ok(Err(msg)) => fail!(self, [C16], "serde-mismatch", "{}", msg),
            Ok(Ok(())) => {}
        }
        self.full_check(s, &[C16])
    }

    pub fn do_set_serde(&mut self, s: usize, in_place: bool, empty: bool) -> Result<(), Fail> {
        if self.st(s + 2).l() > 0 || (in_place && self.st(3 - s).l() > 0) {
            self.nt(C16);
        }
        let n = self.sets[s].set.len();
        let dst = 1 - s;
        let r = guarded(|| -> Result<Option<String>, String> {
            let m = &self.sets[s].set;
            let mut tokens: Vec<Token> = Vec::with_capacity(n + 2);
            tokens.push(Token::Seq { len: Some(n) });
            for k in m.iter() {
                tokens.push(Token::U32(k.k()));
            }
            tokens.push(Token::SeqEnd);
            serde_test::assert_ser_tokens(m, &tokens);
            serde_test::assert_de_tokens(m, &tokens);
            let json = serde_json::to_string(m).map_err(|e| format!("serialisation failed: {}", e))?;
            let back: Set<F> = serde_json::from_str(&json).map_err(|e| format!("deserialisation failed: {}", e))?;
            if back != *m || *m != back || back.len() != n {
                return Err(format!("JSON round trip gave a set of {} elements that is != the original of {}", back.len(), n));
            }
            Ok(if in_place { Some(json) } else { None })
        });
        let json = match r {
            Err((msg, loc)) => fail!(self, [C16], "serde-assert", "set serde check panicked: {} at {}", msg, loc),
            Ok(Err(msg)) => fail!(self, [C16], "serde-mismatch", "{}", msg),
            Ok(Ok(j)) => j,
        };
        if json.is_some() && empty {
            // an empty serialised set, too, replaces the previous contents entirely
            let before = self.sets[dst].set.len();
            let (r, _obs) = self.observe_set_raw(dst, move |set| {
                let mut de = serde_json::Deserializer::from_str("[]");
                serde::Deserialize::deserialize_in_place(&mut de, set).map_err(|e| {
                    let _s = Suspend::new();
                    e.to_string()
                })
            });
            match r {
                Err(p) => fail!(self, [C16], "serde-assert", "deserialize_in_place of an empty sequence panicked: {} at {}", p.msg, p.loc),
                Ok(Err(e)) => fail!(self, [C16], "serde-mismatch", "deserialize_in_place of an empty sequence failed: {}", e),
                Ok(Ok(())) => {}
            }
            let left = self.sets[dst].set.len();
            let left_iter = self.sets[dst].set.iter().count();
            if left != 0 || left_iter != 0 {
                fail!(self, [C16], "serde-in-place", "deserialize_in_place of an empty sequence left {} element(s) (iter yields {}) of the previous {}", left, left_iter, before);
            }
            let live = self.meta[dst + 2].live;
            let vh = self.meta[dst + 2].vh;
            self.meta[dst + 2] = Meta::new(vh, live);
            self.sets[dst].model.clear();
            self.full_check_set(dst, &[C16])?;
        }
        if let Some(json) = json {
            // deserialize_in_place replaces the previous contents of the other set entirely
            let jref = &json;
            let (r, obs) = self.observe_set_raw(dst, move |set| {
                let mut de = serde_json::Deserializer::from_str(jref);
                serde::Deserialize::deserialize_in_place(&mut de, set).map_err(|e| {
                    let _s = Suspend::new();
                    e.to_string()
                })
            });
            match r {
                Err(p) => fail!(self, [C16], "serde-assert", "deserialize_in_place panicked: {} at {}", p.msg, p.loc),
                Ok(Err(e)) => fail!(self, [C16], "serde-mismatch", "deserialize_in_place failed: {}", e),
                Ok(Ok(())) => {}
            }
            let _ = obs;
            let want: Vec<u32> = self.sets[s].model.keys().copied().collect();
            let mut actual: Vec<(u32, u32)> = self.sets[dst].set.iter().map(|k| (k.k(), k.id())).collect();
            actual.sort_unstable();
            let got: Vec<u32> = actual.iter().map(|x| x.0).collect();
            if got != want {
                fail!(self, [C16], "serde-in-place", "deserialize_in_place left {} elements, the serialised set had {}", got.len(), want.len());
            }
            let live = self.meta[dst + 2].live;
            let vh = self.meta[dst + 2].vh;
            self.meta[dst + 2] = Meta::new(vh, live);
            self.sets[dst].model = actual.into_iter().collect();
            self.full_check_set(dst, &[C16])?;
        }
        self.full_check_set(s, &[C16])
    }
}
