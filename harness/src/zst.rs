//! Zero-sized elements: `HashMap<ZK, ZV>` (a zero-sized `(K, V)`) and `HashSet<ZK>`.
//!
//! Zero-sized elements have no identity and all keys are equal, so the reference model is a
//! count. The raw-entry API (`from_hash` with a matcher that never matches) is used to store
//! several elements, which makes these tables grow and resize like any other.

use crate::elems::VH;
use crate::instr::*;
use crate::interp::*;
use crate::elems::Fam;
use griddle::hash_map::{Entry, RawEntryMut};
use serde::{Deserialize, Serialize};
use std::cell::Cell;
use std::hash::{Hash, Hasher};

thread_local! {
    static ZK_LIVE: Cell<i64> = const { Cell::new(0) };
    static ZV_LIVE: Cell<i64> = const { Cell::new(0) };
}

pub struct ZK;
pub struct ZV;

impl ZK {
    pub fn new() -> ZK {
        ZK_LIVE.with(|c| c.set(c.get() + 1));
        ZK
    }
}
impl ZV {
    pub fn new() -> ZV {
        ZV_LIVE.with(|c| c.set(c.get() + 1));
        ZV
    }
}
impl Drop for ZK {
    fn drop(&mut self) {
        ZK_LIVE.with(|c| c.set(c.get() - 1));
    }
}
impl Drop for ZV {
    fn drop(&mut self) {
        ZV_LIVE.with(|c| c.set(c.get() - 1));
    }
}
impl Clone for ZK {
    fn clone(&self) -> ZK {
        tick(K_CLONE, (0, 0), (0, 0));
        ZK::new()
    }
}
impl Clone for ZV {
    fn clone(&self) -> ZV {
        tick(K_CLONE, (0, 0), (0, 0));
        ZV::new()
    }
}
impl Hash for ZK {
    fn hash<H: Hasher>(&self, _state: &mut H) {
        tick(K_HASH, (0, 0), (0, 0));
    }
}
impl PartialEq for ZK {
    fn eq(&self, _o: &ZK) -> bool {
        tick(K_EQ, (0, 0), (0, 0));
        true
    }
}
impl Eq for ZK {}
impl PartialEq for ZV {
    fn eq(&self, _o: &ZV) -> bool {
        true
    }
}
impl std::fmt::Debug for ZK {
    fn fmt(&self, f: &mut std::fmt::Formatter<'_>) -> std::fmt::Result {
        write!(f, "ZK")
    }
}
impl std::fmt::Debug for ZV {
    fn fmt(&self, f: &mut std::fmt::Formatter<'_>) -> std::fmt::Result {
        write!(f, "ZV")
    }
}

impl Serialize for ZK {
    fn serialize<S: serde::Serializer>(&self, ser: S) -> Result<S::Ok, S::Error> {
        ser.serialize_unit()
    }
}
impl Serialize for ZV {
    fn serialize<S: serde::Serializer>(&self, ser: S) -> Result<S::Ok, S::Error> {
        ser.serialize_unit()
    }
}
impl<'de> Deserialize<'de> for ZK {
    fn deserialize<D: serde::Deserializer<'de>>(de: D) -> Result<ZK, D::Error> {
        <()>::deserialize(de).map(|_| ZK::new())
    }
}
impl<'de> Deserialize<'de> for ZV {
    fn deserialize<D: serde::Deserializer<'de>>(de: D) -> Result<ZV, D::Error> {
        <()>::deserialize(de).map(|_| ZV::new())
    }
}

pub fn z_live() -> (i64, i64) {
    (ZK_LIVE.with(|c| c.get()), ZV_LIVE.with(|c| c.get()))
}
pub fn z_reset() {
    ZK_LIVE.with(|c| c.set(0));
    ZV_LIVE.with(|c| c.set(0));
}

pub type ZMap = griddle::HashMap<ZK, ZV, VH>;
pub type ZSet = griddle::HashSet<ZK, VH>;

#[derive(Clone, Copy, Debug, PartialEq, Eq, Serialize, Deserialize)]
pub enum ZOp {
    Insert,
    /// stores one more element through raw_entry_mut().from_hash(h, |_| false)
    Dup(u8),
    Remove,
    RemoveEntry,
    Get,
    Reserve(u16),
    TryReserve(u16),
    ShrinkToFit,
    ShrinkTo(u16),
    /// keep every element whose visit index i satisfies (i % m) < k
    Retain(u8, u8),
    DrainFilter(u8, u8, Option<u8>, bool),
    /// entry().and_replace_entry_with(Some / None)
    EntryReplace(bool),
    RawReplace(bool),
    EntryRemove,
    RawRemove,
    OrInsert,
    Iterate,
    Drain(Option<u8>, bool),
    IntoIter(Option<u8>),
    Clear,
    /// clone into / clone_from the other zero-sized map
    CloneTo,
    CloneFrom,
    Trigger,
    // set
    SetInsert,
    SetRemove,
    SetTake,
    SetReplace,
    SetGetOrInsert,
    SetReserve(u16),
    SetShrink,
    SetRetain(bool),
    SetClear,
    SetIterate,
    SetDrain(bool),
    SetClone,
    /// serde: token streams of the zero-sized map and set, deserialisation, and (flag) an in-place
    /// deserialisation into the set of a sequence of (count of map 0) % 3 elements
    Serde(bool),
    /// rayon traversals of the zero-sized collections in a pool of the given size class
    Par(u8),
}

pub struct ZState {
    pub maps: [ZMap; 2],
    pub counts: [usize; 2],
    pub set: ZSet,
    pub set_count: usize,
    pub vh: VH,
    pub leaked_k: i64,
    pub leaked_v: i64,
    pub used: bool,
    pub no_leak_check: bool,
}

impl ZState {
    pub fn new(vh: VH) -> ZState {
        z_reset();
        ZState {
            maps: [ZMap::with_hasher(vh), ZMap::with_hasher(vh)],
            counts: [0, 0],
            set: ZSet::with_hasher(vh),
            set_count: 0,
            vh,
            leaked_k: 0,
            leaked_v: 0,
            used: false,
            no_leak_check: false,
        }
    }
}

fn scaled(t: Option<u8>, n: usize) -> usize {
    t.map_or(n, |t| (t as usize * (n + 1)) >> 8)
}

impl<F: Fam> Ctx<F> {
    fn z_guard<R>(&mut self, f: impl FnOnce(&mut ZState) -> R) -> Result<R, Fail> {
        let prevq = panic_quiet(true);
        let _ = take_last_panic();
        if self.arm.is_some() {
            fuse_set_active(true);
        }
        let z = &mut self.z;
        let r = std::panic::catch_unwind(std::panic::AssertUnwindSafe(|| f(z)));
        fuse_set_active(false);
        panic_quiet(prevq);
        match r {
            Ok(r) => Ok(r),
            Err(payload) => {
                if payload.is::<FuseMarker>() {
                    std::panic::resume_unwind(payload);
                }
                let (msg, loc) = take_last_panic().unwrap_or_default();
                let loc = norm_loc(&loc);
                let mut tags = vec![C01, C05];
                if self.z.maps[0].verif_state().old.is_some() || self.z.set.verif_state().old.is_some() {
                    tags.push(C04);
                }
                if let Some(t) = self.z_panic_tags.take() {
                    tags = t;
                }
                let detail = format!("{} @ {}", norm_msg(&msg), loc);
                Err(self.mkfail(tags, "unexpected-panic-zst", format!("call on a zero-sized-element collection panicked: {:?} at {}", msg, loc), detail))
            }
        }
    }

    fn z_check(&mut self) -> Result<(), Fail> {
        self.z_check_tagged(&[])
    }

    /// `extra`: the properties that own the operation just made (its effect is what is checked)
    fn z_check_tagged(&mut self, extra: &[Prop]) -> Result<(), Fail> {
        let mut t1 = vec![C01];
        t1.extend_from_slice(extra);
        let mut t13 = vec![C01, C13];
        t13.extend_from_slice(extra);
        for i in 0..2 {
            let (len, cap, hook, n_iter) = {
                let m = &self.z.maps[i];
                (m.len(), m.capacity(), m.verif_state(), m.iter().count())
            };
            let want = self.z.counts[i];
            if len != want || n_iter != want || (len == 0) != self.z.maps[i].is_empty() {
                return Err(self.mkfail(t1, "zst-len", format!("zero-sized map {}: len() = {}, iter() yields {}, reference count {}", i, len, n_iter, want), String::new()));
            }
            if cap < len {
                fail!(self, [C04], "capacity-below-len", "zero-sized map: capacity() = {} < len() = {}", cap, len);
            }
            if let Some(o) = hook.old {
                if o.cursor_remaining != o.len {
                    fail!(self, [C05], "cursor-desync", "zero-sized map: cached cursor believes {} remain, old table holds {}", o.cursor_remaining, o.len);
                }
                if o.len > 0 {
                    self.nt(C05);
                }
            }
            let found = self.z.maps[i].get(&ZK::new()).is_some();
            let contains = self.z.maps[i].contains_key(&ZK::new());
            if found != (want > 0) || contains != (want > 0) {
                return Err(self.mkfail(t1, "zst-get", format!("zero-sized map: get finds = {}, contains_key = {}, reference count {}", found, contains, want), String::new()));
            }
        }
        let (len, cap, hook, n_iter) = {
            let s = &self.z.set;
            (s.len(), s.capacity(), s.verif_state(), s.iter().count())
        };
        if len != self.z.set_count || n_iter != len || self.z.set.contains(&ZK::new()) != (len > 0) {
            return Err(self.mkfail(t13, "zst-len", format!("zero-sized set: len() = {}, iter() yields {}, reference count {}", len, n_iter, self.z.set_count), String::new()));
        }
        if cap < len {
            fail!(self, [C04], "capacity-below-len", "zero-sized set: capacity() = {} < len() = {}", cap, len);
        }
        if let Some(o) = hook.old {
            if o.cursor_remaining != o.len {
                fail!(self, [C05], "cursor-desync", "zero-sized set: cached cursor believes {} remain, old table holds {}", o.cursor_remaining, o.len);
            }
        }
        Ok(())
    }

    pub fn do_z(&mut self, op: &ZOp) -> Result<(), Fail> {
        self.z.used = true;
        let h = self.z.vh.hash_of(0);
        let c0 = self.z.counts[0];
        let sc = self.z.set_count;
        macro_rules! expect {
            ($cond:expr, $($arg:tt)*) => {
                if !($cond) {
                    fail!(self, [C01], "zst-return", $($arg)*);
                }
            };
        }
        match *op {
            ZOp::Insert => {
                let r = self.z_guard(|z| z.maps[0].insert(ZK::new(), ZV::new()).is_some())?;
                expect!(r == (c0 > 0), "insert returned Some = {}, reference count {}", r, c0);
                self.z.counts[0] = c0.max(1);
            }
            ZOp::Dup(n) => {
                let n = (n % 40) as usize + 1;
                let r = self.r;
                let bad = self.z_guard(|z| {
                    let mut bad: Option<(usize, usize)> = None;
                    for _ in 0..n {
                        let l0 = z.maps[0].verif_state().old.map_or(0, |o| o.len);
                        match z.maps[0].raw_entry_mut().from_hash(h, |_| false) {
                            RawEntryMut::Vacant(v) => {
                                v.insert(ZK::new(), ZV::new());
                            }
                            RawEntryMut::Occupied(_) => panic!("from_hash with a matcher that never matches returned Occupied"),
                        }
                        let l1 = z.maps[0].verif_state().old.map_or(0, |o| o.len);
                        // an insertion with L elements waiting moves min(R, L) of them (a new resize
                        // cannot start while L > 0)
                        if l0 > 0 && l1 != l0 - l0.min(r) && bad.is_none() {
                            bad = Some((l0, l1));
                        }
                    }
                    bad
                })?;
                self.z.counts[0] = c0 + n;
                if let Some((l0, l1)) = bad {
                    fail!(self, [C03, C02], "moved-count", "zero-sized map: an insertion with {} elements waiting in the old table left {} there (expected {})", l0, l1, l0 - l0.min(r));
                }
            }
            ZOp::Remove | ZOp::RemoveEntry => {
                let entry = matches!(op, ZOp::RemoveEntry);
                let r = self.z_guard(|z| if entry { z.maps[0].remove_entry(&ZK::new()).is_some() } else { z.maps[0].remove(&ZK::new()).is_some() })?;
                expect!(r == (c0 > 0), "remove returned Some = {}, reference count {}", r, c0);
                self.z.counts[0] = c0.saturating_sub(1);
            }
            ZOp::Get => {
                let r = self.z_guard(|z| (z.maps[0].get(&ZK::new()).is_some(), z.maps[0].get_mut(&ZK::new()).is_some(), z.maps[0].get_key_value(&ZK::new()).is_some()))?;
                expect!(r == (c0 > 0, c0 > 0, c0 > 0), "lookups found {:?}, reference count {}", r, c0);
            }
            ZOp::Reserve(n) | ZOp::TryReserve(n) => {
                let n = n as usize % 3000;
                let fallible = matches!(op, ZOp::TryReserve(_));
                let ok = self.z_guard(|z| if fallible { z.maps[0].try_reserve(n).is_ok() } else { z.maps[0].reserve(n); true })?;
                let cap = self.z.maps[0].capacity();
                if !ok || cap < c0 + n {
                    fail!(self, [C10], "reserve-postcondition", "zero-sized map: reserve({}) ok = {}, capacity() = {}, len() = {}", n, ok, cap, c0);
                }
            }
            ZOp::ShrinkToFit => self.z_guard(|z| z.maps[0].shrink_to_fit())?,
            ZOp::ShrinkTo(m) => self.z_guard(|z| z.maps[0].shrink_to(m as usize % 300))?,
            ZOp::Retain(m, k) => {
                let m = (m % 5) as usize + 1;
                let k = k as usize % (m + 1);
                let calls = self.z_guard(|z| {
                    let mut i = 0usize;
                    z.maps[0].retain(|_, _| {
                        tick(K_CLOSURE, (0, 0), (0, 0));
                        let keep = i % m < k;
                        i += 1;
                        keep
                    });
                    i
                })?;
                if calls != c0 {
                    fail!(self, [C09], "retain-call-log", "zero-sized map: retain called the predicate {} times for {} elements", calls, c0);
                }
                self.z.counts[0] = (0..c0).filter(|i| i % m < k).count();
            }
            ZOp::DrainFilter(m, k, take, forget) => {
                let m = (m % 5) as usize + 1;
                let k = k as usize % (m + 1);
                let matching = (0..c0).filter(|i| i % m < k).count();
                let take_n = scaled(take, matching);
                let (calls, yielded) = self.z_guard(|z| {
                    let mut i = 0usize;
                    let mut y = 0usize;
                    {
                        let mut df = z.maps[0].drain_filter(|_, _| {
                            tick(K_CLOSURE, (0, 0), (0, 0));
                            let hit = i % m < k;
                            i += 1;
                            hit
                        });
                        while y < take_n {
                            if df.next().is_none() {
                                break;
                            }
                            y += 1;
                        }
                        if forget {
                            std::mem::forget(df);
                        } else {
                            drop(df);
                        }
                    }
                    (i, y)
                })?;
                if !forget && calls != c0 {
                    fail!(self, [C09], "drain-filter-call-log", "zero-sized map: predicate called {} times for {} elements", calls, c0);
                }
                if yielded != take_n.min(matching) {
                    fail!(self, [C09], "drain-filter-yield", "zero-sized map: drain_filter yielded {}, expected {}", yielded, take_n.min(matching));
                }
                self.z.counts[0] = if forget { c0 - yielded } else { c0 - matching };
            }
            ZOp::EntryReplace(keep) | ZOp::RawReplace(keep) => {
                let raw = matches!(op, ZOp::RawReplace(_));
                let occ = self.z_guard(|z| {
                    if raw {
                        let e = z.maps[0].raw_entry_mut().from_key(&ZK::new());
                        let occ = matches!(e, RawEntryMut::Occupied(_));
                        let e2 = e.and_replace_entry_with(|_, v| {
                            tick(K_CLOSURE, (0, 0), (0, 0));
                            if keep { Some(v) } else { None }
                        });
                        (occ, matches!(e2, RawEntryMut::Occupied(_)))
                    } else {
                        let e = z.maps[0].entry(ZK::new());
                        let occ = matches!(e, Entry::Occupied(_));
                        let e2 = e.and_replace_entry_with(|_, v| {
                            tick(K_CLOSURE, (0, 0), (0, 0));
                            if keep { Some(v) } else { None }
                        });
                        (occ, matches!(e2, Entry::Occupied(_)))
                    }
                })?;
                if occ.0 != (c0 > 0) || occ.1 != (c0 > 0 && keep) {
                    fail!(self, [C01, C12], "zst-entry", "zero-sized map: entry occupied before/after replace = {:?}, reference count {}, keep = {}", occ, c0, keep);
                }
                if c0 > 0 && !keep {
                    self.z.counts[0] = c0 - 1;
                }
            }
            ZOp::EntryRemove | ZOp::RawRemove => {
                let raw = matches!(op, ZOp::RawRemove);
                let occ = self.z_guard(|z| {
                    if raw {
                        match z.maps[0].raw_entry_mut().from_key_hashed_nocheck(h, &ZK::new()) {
                            RawEntryMut::Occupied(o) => {
                                o.remove_entry();
                                true
                            }
                            RawEntryMut::Vacant(_) => false,
                        }
                    } else {
                        match z.maps[0].entry(ZK::new()) {
                            Entry::Occupied(o) => {
                                o.remove();
                                true
                            }
                            Entry::Vacant(_) => false,
                        }
                    }
                })?;
                if occ != (c0 > 0) {
                    fail!(self, [C01, C12], "zst-entry", "zero-sized map: entry occupied = {}, reference count {}", occ, c0);
                }
                self.z.counts[0] = c0.saturating_sub(1);
            }
            ZOp::OrInsert => {
                self.z_guard(|z| {
                    z.maps[0].entry(ZK::new()).or_insert_with(ZV::new);
                })?;
                self.z.counts[0] = c0.max(1);
            }
            ZOp::Iterate => {
                let r = self.z_guard(|z| {
                    let mut it = z.maps[0].iter();
                    let mut n = 0usize;
                    let mut ok = true;
                    loop {
                        ok &= it.len() + n == c0;
                        if it.next().is_none() {
                            break;
                        }
                        n += 1;
                        if n > c0 + 4 {
                            break;
                        }
                    }
                    ok &= it.next().is_none();
                    let vals = z.maps[0].values_mut().count();
                    let keys = z.maps[0].keys().count();
                    (n, ok, vals, keys)
                })?;
                if r != (c0, true, c0, c0) {
                    fail!(self, [C08], "iterator-protocol", "zero-sized map: iter yielded {} (len exact: {}), values_mut {}, keys {}; reference count {}", r.0, r.1, r.2, r.3, c0);
                }
            }
            ZOp::Drain(take, forget) => {
                let take_n = scaled(take, c0);
                let r = self.z_guard(|z| {
                    let mut d = z.maps[0].drain();
                    let mut n = 0;
                    let mut ok = true;
                    while n < take_n {
                        ok &= d.len() + n == c0;
                        if d.next().is_none() {
                            break;
                        }
                        n += 1;
                    }
                    if forget {
                        std::mem::forget(d);
                    } else {
                        drop(d);
                    }
                    (n, ok)
                })?;
                if r != (take_n.min(c0), true) {
                    fail!(self, [C08], "iterator-protocol", "zero-sized map: drain yielded {} of {} (len exact: {})", r.0, take_n.min(c0), r.1);
                }
                if forget {
                    self.z.leaked_k += (c0 - r.0) as i64;
                    self.z.leaked_v += (c0 - r.0) as i64;
                }
                self.z.counts[0] = 0;
            }
            ZOp::IntoIter(take) => {
                let take_n = scaled(take, c0);
                let vh = self.z.vh;
                let r = self.z_guard(|z| {
                    let old = std::mem::replace(&mut z.maps[0], ZMap::with_hasher(vh));
                    let mut it = old.into_iter();
                    let mut n = 0;
                    let mut ok = true;
                    while n < take_n {
                        ok &= it.len() + n == c0;
                        if it.next().is_none() {
                            break;
                        }
                        n += 1;
                    }
                    (n, ok)
                })?;
                if r != (take_n.min(c0), true) {
                    fail!(self, [C08], "iterator-protocol", "zero-sized map: into_iter yielded {} of {} (len exact: {})", r.0, take_n.min(c0), r.1);
                }
                self.z.counts[0] = 0;
            }
            ZOp::Clear => {
                self.z_guard(|z| z.maps[0].clear())?;
                self.z.counts[0] = 0;
            }
            ZOp::CloneTo => {
                self.z_guard(|z| {
                    let c = z.maps[0].clone();
                    z.maps[1] = c;
                })?;
                self.z.counts[1] = c0;
            }
            ZOp::CloneFrom => {
                self.z_guard(|z| {
                    let (a, b) = z.maps.split_at_mut(1);
                    a[0].clone_from(&b[0]);
                })?;
                self.z.counts[0] = self.z.counts[1];
            }
            ZOp::Trigger => {
                let mut guard = 0;
                loop {
                    let (len, cap) = (self.z.maps[0].len(), self.z.maps[0].capacity());
                    if len >= cap || guard > 2000 {
                        break;
                    }
                    self.do_z(&ZOp::Dup(0))?;
                    guard += 1;
                }
                self.do_z(&ZOp::Dup(0))?;
            }
            ZOp::SetInsert => {
                let r = self.z_guard(|z| z.set.insert(ZK::new()))?;
                expect!(r == (sc == 0), "set insert returned {}, reference count {}", r, sc);
                self.z.set_count = 1;
            }
            ZOp::SetRemove => {
                let r = self.z_guard(|z| z.set.remove(&ZK::new()))?;
                expect!(r == (sc > 0), "set remove returned {}, reference count {}", r, sc);
                self.z.set_count = 0;
            }
            ZOp::SetTake => {
                let r = self.z_guard(|z| z.set.take(&ZK::new()).is_some())?;
                expect!(r == (sc > 0), "set take returned Some = {}, reference count {}", r, sc);
                self.z.set_count = 0;
            }
            ZOp::SetReplace => {
                let r = self.z_guard(|z| z.set.replace(ZK::new()).is_some())?;
                expect!(r == (sc > 0), "set replace returned Some = {}, reference count {}", r, sc);
                self.z.set_count = 1;
            }
            ZOp::SetGetOrInsert => {
                self.z_guard(|z| {
                    z.set.get_or_insert(ZK::new());
                })?;
                self.z.set_count = 1;
            }
            ZOp::SetReserve(n) => {
                let n = n as usize % 3000;
                self.z_guard(|z| z.set.reserve(n))?;
                if self.z.set.capacity() < sc + n {
                    fail!(self, [C10], "reserve-postcondition", "zero-sized set: after reserve({}) capacity() = {}", n, self.z.set.capacity());
                }
            }
            ZOp::SetShrink => self.z_guard(|z| z.set.shrink_to_fit())?,
            ZOp::SetRetain(keep) => {
                self.z_guard(|z| z.set.retain(|_| keep))?;
                if !keep {
                    self.z.set_count = 0;
                }
            }
            ZOp::SetClear => {
                self.z_guard(|z| z.set.clear())?;
                self.z.set_count = 0;
            }
            ZOp::SetIterate => {
                let n = self.z_guard(|z| z.set.iter().count())?;
                if n != sc {
                    fail!(self, [C08, C13], "iterator-protocol", "zero-sized set: iter yielded {}, reference count {}", n, sc);
                }
            }
            ZOp::SetDrain(forget) => {
                let n = self.z_guard(|z| {
                    let mut d = z.set.drain();
                    let mut n = 0;
                    if !forget {
                        while d.next().is_some() {
                            n += 1;
                        }
                    } else {
                        std::mem::forget(d);
                    }
                    n
                })?;
                if !forget && n != sc {
                    fail!(self, [C08, C13], "iterator-protocol", "zero-sized set: drain yielded {}, reference count {}", n, sc);
                }
                if forget {
                    self.z.leaked_k += sc as i64;
                }
                self.z.set_count = 0;
            }
            ZOp::SetClone => {
                let ok = self.z_guard(|z| {
                    let c = z.set.clone();
                    let ok = c == z.set && c.len() == z.set.len();
                    let mut d = ZSet::with_hasher(z.vh);
                    d.clone_from(&z.set);
                    ok && d == z.set
                })?;
                if !ok {
                    fail!(self, [C11], "clone-not-equal", "zero-sized set: clone != source");
                }
            }
            ZOp::Serde(in_place) => {
                use serde_test::Token;
                if self.z.maps[0].verif_state().old.map_or(false, |o| o.len > 0) || self.z.set.verif_state().old.map_or(false, |o| o.len > 0) {
                    self.nt(C16);
                }
                let vh = self.z.vh;
                let k_in_place = c0 % 3;
                self.z_panic_tags = Some(vec![C16]);
                let r = self.z_guard(|z| -> Result<usize, String> {
                    // exact length, every element once (elements are indistinguishable, so "in
                    // iteration order" says nothing here)
                    let m = &z.maps[0];
                    let n = m.len();
                    let mut tokens: Vec<Token> = Vec::with_capacity(2 * n + 2);
                    tokens.push(Token::Map { len: Some(n) });
                    for _ in m.iter() {
                        tokens.push(Token::Unit);
                        tokens.push(Token::Unit);
                    }
                    tokens.push(Token::MapEnd);
                    serde_test::assert_ser_tokens(m, &tokens);
                    // all keys are equal. A map with at most one pair is an ordinary map: what comes
                    // back must equal it. With more (stored through the raw-entry API) the output
                    // repeats a key, and what deserialising THAT gives is not part of the statement:
                    // it only has to work (no panic, no error) and give 1..=n pairs
                    if n <= 1 {
                        let mut expect = ZMap::with_hasher(vh);
                        if n > 0 {
                            expect.insert(ZK::new(), ZV::new());
                        }
                        serde_test::assert_de_tokens(&expect, &tokens);
                        if expect != *m || *m != expect {
                            return Err("zero-sized map: the deserialised map is != the original".to_string());
                        }
                    } else {
                        let de = serde::de::value::MapDeserializer::<_, serde::de::value::Error>::new((0..n).map(|_| ((), ())));
                        let back = ZMap::deserialize(de).map_err(|e| format!("deserialising {} unit pairs failed: {}", n, e))?;
                        if back.len() == 0 || back.len() > n {
                            return Err(format!("zero-sized map: deserialising {} unit pairs gave {} pairs", n, back.len()));
                        }
                    }
                    let s = &z.set;
                    let n = s.len();
                    let mut tokens: Vec<Token> = Vec::with_capacity(n + 2);
                    tokens.push(Token::Seq { len: Some(n) });
                    for _ in s.iter() {
                        tokens.push(Token::Unit);
                    }
                    tokens.push(Token::SeqEnd);
                    serde_test::assert_ser_tokens(s, &tokens);
                    if n <= 1 {
                        let mut expect = ZSet::with_hasher(vh);
                        if n > 0 {
                            expect.insert(ZK::new());
                        }
                        serde_test::assert_de_tokens(&expect, &tokens);
                    }
                    let json = serde_json::to_string(s).map_err(|e| format!("serialisation failed: {}", e))?;
                    let back: ZSet = serde_json::from_str(&json).map_err(|e| format!("deserialisation failed: {}", e))?;
                    if (n == 0) != (back.len() == 0) || back.len() > n || (n <= 1 && (back != *s || *s != back)) {
                        return Err(format!("zero-sized set: JSON round trip of {} element(s) gave {}", n, back.len()));
                    }
                    if in_place {
                        let json = format!("[{}]", vec!["null"; k_in_place].join(","));
                        let mut de = serde_json::Deserializer::from_str(&json);
                        serde::Deserialize::deserialize_in_place(&mut de, &mut z.set).map_err(|e| format!("deserialize_in_place failed: {}", e))?;
                        return Ok(z.set.len());
                    }
                    Ok(n)
                });
                self.z_panic_tags = None;
                match r? {
                    Err(msg) => fail!(self, [C16], "serde-mismatch", "{}", msg),
                    Ok(n) => {
                        if in_place {
                            if (n == 0) != (k_in_place == 0) || n > k_in_place {
                                fail!(self, [C16], "serde-in-place", "zero-sized set: deserialize_in_place of {} element(s) left {} (previously {})", k_in_place, n, sc);
                            }
                            self.z.set_count = n;
                        }
                    }
                }
            }
            ZOp::Par(threads) => {
                use rayon::iter::{IntoParallelRefIterator, IntoParallelRefMutIterator, ParallelIterator};
                if self.z.maps[0].verif_state().old.map_or(false, |o| o.len > 0) || self.z.set.verif_state().old.map_or(false, |o| o.len > 0) {
                    self.nt(C15);
                }
                let pool = crate::features::pool(threads);
                self.z_panic_tags = Some(vec![C15]);
                let r = self.z_guard(|z| {
                    let (maps, set) = (&mut z.maps, &z.set);
                    pool.install(|| {
                        let m = &mut maps[0];
                        let a = [m.par_iter().count(), m.par_keys().count(), m.par_values().count(), m.par_iter_mut().count(), m.par_values_mut().count()];
                        let eq_self = m.par_eq(m) == (*m == *m);
                        let o = &maps[1];
                        let m = &maps[0];
                        let eq_other = m.par_eq(o) == (*m == *o) && o.par_eq(m) == (*o == *m);
                        (a, set.par_iter().count(), eq_self && eq_other, set.par_eq(set) == (*set == *set))
                    })
                });
                self.z_panic_tags = None;
                let (a, sn, eq_m, eq_s) = r?;
                if a.iter().any(|x| *x != c0) || sn != sc {
                    fail!(self, [C15], "rayon-mismatch", "zero-sized collections: parallel traversals visited {:?} / {} elements, the map holds {}, the set {}", a, sn, c0, sc);
                }
                if !eq_m || !eq_s {
                    fail!(self, [C15], "rayon-mismatch", "zero-sized collections: par_eq disagrees with ==");
                }
            }
        }
        let owners: &[Prop] = match *op {
            ZOp::Retain(..) | ZOp::DrainFilter(..) | ZOp::SetRetain(_) => &[C09],
            ZOp::Iterate | ZOp::Drain(..) | ZOp::IntoIter(_) | ZOp::SetIterate | ZOp::SetDrain(_) => &[C08],
            ZOp::Reserve(_) | ZOp::TryReserve(_) | ZOp::ShrinkToFit | ZOp::ShrinkTo(_) | ZOp::SetReserve(_) | ZOp::SetShrink => &[C10],
            ZOp::CloneTo | ZOp::CloneFrom | ZOp::SetClone => &[C11],
            ZOp::EntryReplace(_) | ZOp::RawReplace(_) | ZOp::EntryRemove | ZOp::RawRemove | ZOp::OrInsert => &[C12],
            ZOp::Serde(_) => &[C16],
            ZOp::Par(_) => &[C15],
            _ => &[],
        };
        self.z_check_tagged(owners)
    }

    /// end of case: drop the zero-sized collections, every object must be gone
    pub fn z_finish(&mut self) -> Result<(), Fail> {
        if !self.z.used {
            return Ok(());
        }
        self.z_check()?;
        let vh = self.z.vh;
        self.z_guard(|z| {
            z.maps = [ZMap::with_hasher(vh), ZMap::with_hasher(vh)];
            z.set = ZSet::with_hasher(vh);
        })?;
        let (k, v) = z_live();
        if !self.z.no_leak_check && (k != self.z.leaked_k || v != self.z.leaked_v) {
            fail!(self, [C06], "leak", "zero-sized elements: {} key(s) and {} value(s) alive after everything was dropped ({} / {} may leak through forgotten iterators)", k, v, self.z.leaked_k, self.z.leaked_v);
        }
        Ok(())
    }
}
