//! The interpreter: applies a case to griddle maps and to a reference model, observes every call
//! (allocations, hash computations, hook state before/after) and judges it against the oracles of
//! all properties. Every failure carries the properties that own it.

use crate::elems::*;
use crate::instr::*;
use crate::ops::*;
use griddle::verif::State as HookState;
use std::collections::{BTreeMap, BTreeSet};
use std::panic::{catch_unwind, resume_unwind, AssertUnwindSafe};

pub type Map<F> = griddle::HashMap<<F as Fam>::K, <F as Fam>::V, VH>;

#[derive(Clone, Copy, PartialEq, Eq, Debug, Hash, PartialOrd, Ord)]
pub enum Prop {
    C01 = 1,
    C02,
    C03,
    C04,
    C05,
    C06,
    C07,
    C08,
    C09,
    C10,
    C11,
    C12,
    C13,
    C14,
    C15,
    C16,
    C17,
}
pub use Prop::*;

impl Prop {
    pub fn parse(s: &str) -> Option<Prop> {
        Some(match s {
            "C01" => C01,
            "C02" => C02,
            "C03" => C03,
            "C04" => C04,
            "C05" => C05,
            "C06" => C06,
            "C07" => C07,
            "C08" => C08,
            "C09" => C09,
            "C10" => C10,
            "C11" => C11,
            "C12" => C12,
            "C13" => C13,
            "C14" => C14,
            "C15" => C15,
            "C16" => C16,
            "C17" => C17,
            _ => return None,
        })
    }
    pub fn bit(self) -> u32 {
        1 << (self as u32)
    }
    pub fn name(self) -> String {
        format!("C{:02}", self as u32)
    }
}

#[derive(Clone, Debug)]
pub struct Fail {
    pub tags: Vec<Prop>,
    /// short stable oracle id
    pub oracle: &'static str,
    pub msg: String,
    pub op_index: usize,
    pub op_name: &'static str,
    /// normalised detail used in the known-finding signature (panic message + location, ...)
    pub detail: String,
}

impl Fail {
    pub fn has(&self, p: Prop) -> bool {
        self.tags.contains(&p)
    }
    pub fn signature(&self) -> String {
        format!("{}|{}|{}", self.oracle, self.op_name, self.detail)
    }
    pub fn describe(&self) -> String {
        format!(
            "[{}] op#{} {}: {} ({})",
            self.tags.iter().map(|t| t.name()).collect::<Vec<_>>().join(","),
            self.op_index,
            self.op_name,
            self.msg,
            self.signature()
        )
    }
}

/// model entry: identity of the stored key object, value payload, identity of the value object
#[derive(Clone, Copy, Debug, PartialEq, Eq)]
pub struct ME {
    pub kid: u32,
    pub v: u32,
    pub vid: u32,
}

pub type Model = BTreeMap<u32, ME>;

thread_local! {
    /// foreign work/progress failure of the case that finished last (see `Ctx::judge`)
    static DEFERRED: std::cell::RefCell<Option<Fail>> = const { std::cell::RefCell::new(None) };
}
pub fn take_deferred() -> Option<Fail> {
    DEFERRED.with(|d| d.borrow_mut().take())
}

thread_local! {
    /// states an entry legitimately had during the current operation (intermediate states of
    /// multi-step operations); used by the fault oracle
    static LEGIT: std::cell::RefCell<Vec<(u32, ME)>> = const { std::cell::RefCell::new(Vec::new()) };
}
pub fn legit_push(k: u32, me: ME) {
    let _s = Suspend::new();
    LEGIT.with(|l| {
        let mut l = l.borrow_mut();
        if l.len() < 4096 {
            l.push((k, me));
        }
    });
}
pub fn legit_clear() {
    LEGIT.with(|l| l.borrow_mut().clear());
}
/// a completed step of a multi-step operation removed key `k`: "absent" is a legitimate state
pub fn legit_absent(k: u32) {
    legit_push(k, ME { kid: u32::MAX, v: u32::MAX, vid: u32::MAX });
}
pub fn legit_absent_ok(k: u32) -> bool {
    LEGIT.with(|l| l.borrow().iter().any(|x| x.0 == k && x.1.kid == u32::MAX && x.1.vid == u32::MAX))
}
pub fn legit_for(k: u32) -> Vec<ME> {
    LEGIT.with(|l| l.borrow().iter().filter(|x| x.0 == k).map(|x| x.1).collect())
}

pub struct Slot<F: Fam> {
    pub map: Map<F>,
    pub model: Model,
}

pub type Set<F> = griddle::HashSet<<F as Fam>::K, VH>;

pub struct SetSlot<F: Fam> {
    pub set: Set<F>,
    /// key -> identity of the stored object
    pub model: BTreeMap<u32, u32>,
}

/// per-container bookkeeping of the oracles (indices 0,1: maps; 2,3: sets)
pub struct Meta {
    pub vh: VH,
    /// table allocations currently owned by this slot's map, as seen by the counting allocator
    pub live: i64,
    /// the old table was emptied by retain / replace_entry_with and may linger until the next
    /// key-adding call, clear or drain
    pub linger_ok: bool,
    /// C03 episode tracking: (L0, key-adding calls so far)
    pub episode: Option<(usize, usize)>,
    /// C05 non-trivial rule: an old-table element was removed by a route other than `remove`
    /// and that old table still exists
    pub nonremove_old_removal: bool,
    /// C01 non-trivial rule: some old table was emptied by removals
    pub emptied_by_removal: bool,
}

impl Meta {
    pub fn new(vh: VH, live: i64) -> Meta {
        Meta {
            vh,
            live,
            linger_ok: false,
            episode: None,
            nonremove_old_removal: false,
            emptied_by_removal: false,
        }
    }
}

#[derive(Clone, Copy, Debug)]
pub struct St {
    pub len: usize,
    pub cap: usize,
    pub hook: HookState,
}

impl St {
    pub fn l(&self) -> usize {
        self.hook.old.map_or(0, |o| o.len)
    }
    pub fn old_present(&self) -> bool {
        self.hook.old.is_some()
    }
}

pub struct Obs {
    pub pre: St,
    pub post: St,
    pub alloc: AllocCount,
    pub hashes: Vec<(u32, u32)>,
}

#[derive(Clone, Debug)]
pub struct PanicInfo {
    pub msg: String,
    pub loc: String,
}

/// What kind of call this was, for the work/progress/headroom oracles.
#[derive(Clone, Copy, Debug, PartialEq, Eq)]
pub enum Kind {
    /// lookups, removals, in-place updates, and calls that add one key (see `added`)
    Point,
    Reserve,
    Shrink,
    /// retain / drain_filter / clear / drain / iteration
    Bulk,
    Extend(usize),
    /// clone / clone_from / construction / teardown: exempt from the work bounds
    Exempt,
}

#[derive(Clone, Copy, Debug)]
pub struct Facts {
    pub kind: Kind,
    /// key the caller queried / added (hash computations of objects with this key are "the key")
    pub qkey: Option<u32>,
    /// a new element was inserted into the table by this call
    pub added: bool,
    /// how many raw insertions the (chained) call made; 1 for every plain call
    pub adds: usize,
    /// `insert` overwrote the value of an element that was in the old table
    pub overwrote_old: bool,
    /// elements this call removed from the old table (before any carry)
    pub removed_from_old: usize,
    /// ... of which by erase-style routes (retain, replace_entry_with) that may leave the table
    pub removed_lingering: bool,
    /// elements this call removed from the main table before inserting (entry chains)
    pub removed_from_main: usize,
    /// the call panicked (documented panic): allocation counts are not meaningful
    pub panicked: bool,
    /// the call is `clear`, `drain`: old table must be gone afterwards
    pub clears: bool,
    /// number of hash computations the harness did itself on behalf of the caller
    pub zero_hash_lookup: bool,
    /// the op is one of C01's listed operations
    pub listed: bool,
}

impl Facts {
    pub fn point(qkey: u32) -> Facts {
        Facts {
            kind: Kind::Point,
            qkey: Some(qkey),
            added: false,
            adds: 1,
            overwrote_old: false,
            removed_from_old: 0,
            removed_lingering: false,
            removed_from_main: 0,
            panicked: false,
            clears: false,
            zero_hash_lookup: false,
            listed: true,
        }
    }
    pub fn of(kind: Kind) -> Facts {
        Facts {
            kind,
            qkey: None,
            added: false,
            adds: 1,
            overwrote_old: false,
            removed_from_old: 0,
            removed_lingering: false,
            removed_from_main: 0,
            panicked: false,
            clears: false,
            zero_hash_lookup: false,
            listed: false,
        }
    }
    pub fn key_adding(&self) -> bool {
        self.added || self.overwrote_old
    }
}

/// Coverage accounting for one case (merged by the worker).
#[derive(Clone, Debug, Default)]
pub struct Stats {
    pub calls: u64,
    pub ops: u64,
    /// calls by resize phase at the time of the call: none / L>0 and nothing moved yet /
    /// partly moved / old table present but empty
    pub phase: [u64; 4],
    /// point calls by location of the key: absent / main / old
    pub loc: [u64; 3],
    /// calls by map size class: <16, <128, <1024, <8192, <65536, >=65536
    pub size: [u64; 6],
    pub key_adding_at_l: u64,
    pub max_len: usize,
    pub max_len_key_adding_at_l: usize,
    pub episodes_started: u64,
    pub episodes_finished: [u64; 6], // carry / removals / linger+insert / clear|drain / reserve / other
    pub probes: u64,
    pub probes_at_l: u64,
    /// operations during which at least one call ran with L > 0
    pub ops_at_l: u64,
    pub old32_chain: u64,
    pub faults: u64,
    pub by_op: BTreeMap<&'static str, u64>,
    /// bit p set: this case is non-trivial for property p
    pub nontrivial: u32,
    pub excluded_known: u64,
    /// calls after which the cursor was short although another property was in focus
    pub soft_cursor_desync: u64,
    pub deferred_foreign: u64,
}

impl Stats {
    pub fn merge(&mut self, o: &Stats) {
        self.calls += o.calls;
        self.ops += o.ops;
        for i in 0..4 {
            self.phase[i] += o.phase[i];
        }
        for i in 0..3 {
            self.loc[i] += o.loc[i];
        }
        for i in 0..6 {
            self.size[i] += o.size[i];
            self.episodes_finished[i] += o.episodes_finished[i];
        }
        self.key_adding_at_l += o.key_adding_at_l;
        self.max_len = self.max_len.max(o.max_len);
        self.max_len_key_adding_at_l = self.max_len_key_adding_at_l.max(o.max_len_key_adding_at_l);
        self.episodes_started += o.episodes_started;
        self.probes += o.probes;
        self.probes_at_l += o.probes_at_l;
        self.ops_at_l += o.ops_at_l;
        self.old32_chain += o.old32_chain;
        self.faults += o.faults;
        for (k, v) in &o.by_op {
            *self.by_op.entry(k).or_insert(0) += v;
        }
        self.excluded_known += o.excluded_known;
        self.soft_cursor_desync += o.soft_cursor_desync;
        self.deferred_foreign += o.deferred_foreign;
    }
}

pub struct Ctx<F: Fam> {
    pub slots: [Slot<F>; 2],
    pub sets: [SetSlot<F>; 2],
    pub meta: [Meta; 4],
    pub z: crate::zst::ZState,
    /// owner tags of an unexpected panic inside the next guarded call on the zero-sized collections
    pub z_panic_tags: Option<Vec<Prop>>,
    /// key the next raw-entry chain looks up instead of the key it inserts (`probe_other`)
    pub probe_next: Option<u32>,
    pub fresh: u32,
    pub universe: u32,
    pub op_index: usize,
    pub op_name: &'static str,
    pub stats: Stats,
    /// after an injected fault every failure belongs to C07
    pub post_fault: bool,
    /// C07: arm the fuse inside the next observed call(s): (kind, n); u32::MAX = count mode
    pub arm: Option<(usize, u32)>,
    pub probe_key: F::K,
    /// ids that may legitimately never be dropped (elements of forgotten iterators)
    pub allow_leak: BTreeSet<u32>,
    /// thorough tier: larger bounds
    pub big: bool,
    pub since_full: [usize; 2],
    pub r: usize,
    /// the property this run decides (None: strict, every oracle ends the case)
    pub focus: Option<Prop>,
    /// first failure of a work/progress oracle that the focused property does not own
    pub deferred: Option<Fail>,
    /// a drain is being forgotten and its allowed leaks are not registered yet
    pub forget_in_flight: bool,
    /// value of `panic_count()` when the case started
    pub panics_at_start: u64,
}

pub const FULL_EVERY_SMALL: usize = 1;
pub const SMALL_LEN: usize = 96;

macro_rules! fail {
    ($ctx:expr, [$($t:expr),*], $oracle:expr, $($arg:tt)*) => {
        return Err($ctx.mkfail(vec![$($t),*], $oracle, format!($($arg)*), String::new()))
    };
}
pub(crate) use fail;

impl<F: Fam> Ctx<F> {
    pub fn new(case: &Case) -> Ctx<F> {
        ledger_reset();
        vh_default_reset();
        let mk = |i: usize| -> (Slot<F>, Meta) {
            let vh = case.hashers[i];
            let cap = case.init_cap[i] as usize;
            let (map, a) = window(|| {
                if cap == 0 {
                    Map::<F>::with_hasher(vh)
                } else {
                    Map::<F>::with_capacity_and_hasher(cap, vh)
                }
            });
            (Slot { map, model: Model::new() }, Meta::new(vh, a.allocs as i64 - a.deallocs as i64))
        };
        let mks = |i: usize| -> (SetSlot<F>, Meta) {
            let vh = case.hashers[i];
            let cap = case.init_cap[i] as usize;
            let (set, a) = window(|| {
                if cap == 0 {
                    Set::<F>::with_hasher(vh)
                } else {
                    Set::<F>::with_capacity_and_hasher(cap, vh)
                }
            });
            (SetSlot { set, model: BTreeMap::new() }, Meta::new(vh, a.allocs as i64 - a.deallocs as i64))
        };
        let (s0, m0) = mk(0);
        let (s1, m1) = mk(1);
        let (t0, m2) = mks(0);
        let (t1, m3) = mks(1);
        Ctx {
            slots: [s0, s1],
            sets: [t0, t1],
            meta: [m0, m1, m2, m3],
            z: crate::zst::ZState::new(case.hashers[0]),
            z_panic_tags: None,
            probe_next: None,
            fresh: 0,
            universe: case.universe.max(1),
            op_index: 0,
            op_name: "init",
            stats: Stats::default(),
            post_fault: false,
            arm: None,
            probe_key: F::K::mk(u32::MAX),
            allow_leak: BTreeSet::new(),
            forget_in_flight: false,
            panics_at_start: panic_count(),
            big: false,
            since_full: [0, 0],
            r: griddle::verif::R,
            focus: None,
            deferred: None,
        }
    }

    pub fn mkfail(&self, mut tags: Vec<Prop>, oracle: &'static str, msg: String, detail: String) -> Fail {
        if self.post_fault {
            tags = vec![C07];
        }
        tags.sort();
        tags.dedup();
        Fail {
            tags,
            oracle,
            msg,
            op_index: self.op_index,
            op_name: self.op_name,
            detail,
        }
    }

    /// state of container `s` (0,1: maps; 2,3: sets)
    pub fn st(&self, s: usize) -> St {
        if s < 2 {
            let m = &self.slots[s].map;
            St {
                len: m.len(),
                cap: m.capacity(),
                hook: m.verif_state(),
            }
        } else {
            let m = &self.sets[s - 2].set;
            St {
                len: m.len(),
                cap: m.capacity(),
                hook: m.verif_state(),
            }
        }
    }

    pub fn nt(&mut self, p: Prop) {
        self.stats.nontrivial |= p.bit();
    }

    // -----------------------------------------------------------------------------------------
    // key selection
    // -----------------------------------------------------------------------------------------

    pub fn fresh_key(&mut self) -> u32 {
        self.fresh += 1;
        self.universe.wrapping_add(self.fresh)
    }

    fn probe(&mut self, k: u32) -> &F::K {
        // a fresh probe object per lookup would grow the ledger without bound
        if self.probe_key.k() != k {
            self.probe_key = F::K::mk(k);
        }
        &self.probe_key
    }

    pub fn in_old(&mut self, s: usize, k: u32) -> Option<bool> {
        if self.slots[s].map.verif_state().old.is_none() {
            return if self.slots[s].model.contains_key(&k) { Some(false) } else { None };
        }
        let _ = self.probe(k);
        self.slots[s].map.verif_in_old(&self.probe_key)
    }

    fn nth_existing(&self, s: usize, i: u16) -> Option<u32> {
        let m = &self.slots[s].model;
        let (&lo, _) = m.iter().next()?;
        let (&hi, _) = m.iter().next_back()?;
        let span = (hi - lo) as u64 + 1;
        let target = lo as u64 + ((i as u64 * span) >> 16);
        let target = target as u32;
        m.range(target..).next().map(|(k, _)| *k).or(Some(lo))
    }

    fn scan_class(&mut self, s: usize, i: u16, want_old: bool) -> Option<u32> {
        let start = self.nth_existing(s, i)?;
        if self.slots[s].map.verif_state().old.is_none() {
            return if want_old { None } else { Some(start) };
        }
        let keys: Vec<u32> = {
            let m = &self.slots[s].model;
            m.range(start..).map(|(k, _)| *k).chain(m.range(..start).map(|(k, _)| *k)).take(192).collect()
        };
        for k in keys {
            if self.in_old(s, k) == Some(want_old) {
                return Some(k);
            }
        }
        None
    }

    pub fn resolve(&mut self, s: usize, sel: KeySel) -> u32 {
        match sel {
            KeySel::Fresh => self.fresh_key(),
            KeySel::Existing(i) => match self.nth_existing(s, i) {
                Some(k) => k,
                None => self.fresh_key(),
            },
            KeySel::InOld(i) => match self.scan_class(s, i, true) {
                Some(k) => k,
                None => self.resolve(s, KeySel::Existing(i)),
            },
            KeySel::InMain(i) => match self.scan_class(s, i, false) {
                Some(k) => k,
                None => self.resolve(s, KeySel::Existing(i)),
            },
            KeySel::NextMoved(i) => match self.slots[s].map.verif_cursor_nth(i as usize % 20).map(|k| k.k()) {
                Some(k) => k,
                None => self.resolve(s, KeySel::InOld((i as u16) << 8)),
            },
            KeySel::Any(k) => k % self.universe,
            KeySel::Absent(k) => {
                let mut k = k % self.universe;
                for _ in 0..64 {
                    if !self.slots[s].model.contains_key(&k) {
                        return k;
                    }
                    k = (k + 1) % self.universe;
                }
                self.fresh_key()
            }
        }
    }

    pub fn resolve_cap(&self, s: usize, a: CapArg) -> usize {
        let st = self.st(s);
        let d = |base: usize, d: i8| -> usize {
            if d >= 0 {
                base.saturating_add(d as usize)
            } else {
                base.saturating_sub((-(d as i64)) as usize)
            }
        };
        match a {
            CapArg::Small(n) => n as usize,
            CapArg::AroundFree(x) => d(st.cap - st.len.min(st.cap), x),
            CapArg::AroundLen(x) => d(st.len, x),
            CapArg::AroundHeadroom(x) => {
                let l = st.l();
                d(st.len + (l + self.r - 1) / self.r, x)
            }
            CapArg::Medium(n) => {
                if self.big {
                    n as usize * 4
                } else {
                    n as usize
                }
            }
            CapArg::Huge(i) => resolve_huge(i),
        }
    }

    // -----------------------------------------------------------------------------------------
    // observation of one call
    // -----------------------------------------------------------------------------------------

    fn pre_call(&mut self, s: usize) -> (St, (u64, u64, u64), bool, bool) {
        let pre = self.st(s);
        self.classify(&pre);
        hlog_start();
        let prevq = panic_quiet(true);
        let _ = take_last_panic();
        if self.arm.is_some() {
            fuse_set_active(true);
        }
        let c = counters();
        let w = win_open();
        (pre, c, w, prevq)
    }

    fn post_call<Rv>(
        &mut self,
        s: usize,
        tok: (St, (u64, u64, u64), bool, bool),
        r: std::thread::Result<Rv>,
    ) -> (Result<Rv, PanicInfo>, Obs) {
        let (pre, (a0, d0, b0), w, prevq) = tok;
        win_restore(w);
        let alloc = window_since(a0, d0, b0);
        fuse_set_active(false);
        panic_quiet(prevq);
        let hashes = hlog_stop();
        let r = match r {
            Ok(rv) => {
                self.meta[s].live += alloc.allocs as i64 - alloc.deallocs as i64;
                Ok(rv)
            }
            Err(payload) => {
                // the panic machinery allocates inside the window: take the table count from the
                // hook instead of the allocator for this call
                let h = self.st(s).hook;
                self.meta[s].live = (h.main_buckets > 1) as i64 + h.old.is_some() as i64;
                if payload.is::<FuseMarker>() {
                    resume_unwind(payload);
                }
                let (msg, loc) = take_last_panic().unwrap_or_default();
                Err(PanicInfo { msg, loc: norm_loc(&loc) })
            }
        };
        let post = self.st(s);
        (r, Obs { pre, post, alloc, hashes })
    }

    /// Runs `f` on map slot `s` inside a measurement window. `Err(p)` = the call panicked.
    pub fn observe_raw<Rv>(
        &mut self,
        s: usize,
        f: impl FnOnce(&mut Map<F>) -> Rv,
    ) -> (Result<Rv, PanicInfo>, Obs) {
        let tok = self.pre_call(s);
        let map = &mut self.slots[s].map;
        let r = catch_unwind(AssertUnwindSafe(|| f(map)));
        self.post_call(s, tok, r)
    }

    /// Same for set slot `s` (0 or 1; bookkeeping index s + 2).
    pub fn observe_set_raw<Rv>(
        &mut self,
        s: usize,
        f: impl FnOnce(&mut Set<F>) -> Rv,
    ) -> (Result<Rv, PanicInfo>, Obs) {
        let tok = self.pre_call(s + 2);
        let set = &mut self.sets[s].set;
        let r = catch_unwind(AssertUnwindSafe(|| f(set)));
        self.post_call(s + 2, tok, r)
    }

    pub fn observe_set<Rv>(
        &mut self,
        s: usize,
        owners: &[Prop],
        f: impl FnOnce(&mut Set<F>) -> Rv,
    ) -> Result<(Rv, Obs), Fail> {
        let (r, obs) = self.observe_set_raw(s, f);
        match r {
            Ok(rv) => Ok((rv, obs)),
            Err(p) => Err(self.unexpected_panic(&p, &obs.pre, false, owners)),
        }
    }

    /// Like `observe_raw`, but any panic is a failure.
    pub fn observe<Rv>(
        &mut self,
        s: usize,
        listed: bool,
        owners: &[Prop],
        f: impl FnOnce(&mut Map<F>) -> Rv,
    ) -> Result<(Rv, Obs), Fail> {
        let (r, obs) = self.observe_raw(s, f);
        match r {
            Ok(rv) => Ok((rv, obs)),
            Err(p) => Err(self.unexpected_panic(&p, &obs.pre, listed, owners)),
        }
    }

    pub fn unexpected_panic(&self, p: &PanicInfo, pre: &St, listed: bool, owners: &[Prop]) -> Fail {
        let mut tags: Vec<Prop> = owners.to_vec();
        if listed {
            tags.push(C01);
        }
        if p.loc.contains("hashbrown") && !p.msg.contains("capacity overflow") {
            // a dependency assertion stopped an inconsistent state
            tags.push(C05);
        }
        if pre.old_present() {
            // "a resize in progress never has to be interrupted": a panic in a call made while an
            // old table is present
            tags.push(C04);
        }
        if tags.is_empty() {
            tags.push(C01);
        }
        let detail = format!("{} @ {}", norm_msg(&p.msg), p.loc);
        self.mkfail(
            tags,
            "unexpected-panic",
            format!("call panicked: {:?} at {}", p.msg, p.loc),
            detail,
        )
    }

    fn classify(&mut self, pre: &St) {
        let st = &mut self.stats;
        st.calls += 1;
        let ph = match pre.hook.old {
            None => 0,
            Some(o) if o.len == 0 => 3,
            // "just started": only the triggering insert and its first carry have happened
            Some(_) if pre.hook.main_len <= self.r + 1 => 1,
            Some(_) => 2,
        };
        st.phase[ph] += 1;
        let sz = match pre.len {
            0..=15 => 0,
            16..=127 => 1,
            128..=1023 => 2,
            1024..=8191 => 3,
            8192..=65535 => 4,
            _ => 5,
        };
        st.size[sz] += 1;
        st.max_len = st.max_len.max(pre.len);
    }

    // -----------------------------------------------------------------------------------------
    // per-call oracles (C02, C03, C04, C05)
    // -----------------------------------------------------------------------------------------

    /// Per-call oracles. When a property is in focus, failures of the work / progress oracles that
    /// it does not own do not end the case (they are counted and reported as foreign): ending it
    /// would hide the functional consequences the focused property owns. Safety-critical findings
    /// (cursor ahead of the table, capacity below len, double free) always end the case.
    pub fn judge(&mut self, s: usize, obs: &Obs, f: &Facts) -> Result<(), Fail> {
        match self.judge_inner(s, obs, f) {
            Err(fl) => {
                const DEFERRABLE: [&str; 22] = [
                    "alloc-during-resize", "old-table-survives-clear", "old-accounting", "carry-quota", "second-old-table",
                    "old-table-not-freed", "old-table-dropped-early", "resize-started-by-non-insert", "carry-quota-at-growth",
                    "all-at-once-growth", "episode-too-long", "three-tables", "table-leak", "hash-bound-key-adding",
                    "alloc-bound-key-adding", "hash-bound-lookup", "alloc-in-lookup", "moved-in-lookup", "hash-in-reserve",
                    "alloc-bound-reserve", "work-in-bulk", "hash-bound-extend",
                ];
                // after an injected fault only the functional and safety oracles are C07's business
                if self.post_fault && DEFERRABLE.contains(&fl.oracle) {
                    self.meta[s].episode = None;
                    let h = obs.post.hook;
                    self.meta[s].live = (h.main_buckets > 1) as i64 + h.old.is_some() as i64;
                    self.meta[s].linger_ok = h.old.map_or(false, |o| o.len == 0);
                    return Ok(());
                }
                let defer = matches!(self.focus, Some(p) if !fl.has(p)) && !self.post_fault && DEFERRABLE.contains(&fl.oracle);
                if defer {
                    self.stats.deferred_foreign += 1;
                    if self.deferred.is_none() {
                        self.deferred = Some(fl);
                    }
                    // the bookkeeping of the progress oracle is no longer meaningful for this map
                    self.meta[s].episode = None;
                    let h = obs.post.hook;
                    self.meta[s].live = (h.main_buckets > 1) as i64 + h.old.is_some() as i64;
                    self.meta[s].linger_ok = h.old.map_or(false, |o| o.len == 0);
                    Ok(())
                } else {
                    Err(fl)
                }
            }
            ok => ok,
        }
    }

    fn judge_inner(&mut self, s: usize, obs: &Obs, f: &Facts) -> Result<(), Fail> {
        let r = self.r;
        let pre = &obs.pre;
        let post = &obs.post;
        let l0 = pre.l();

        // ---- C05: cached cursor agrees with the old table
        if let Some(o) = post.hook.old {
            if o.cursor_remaining != o.len {
                // When another property is being checked and the cursor is merely *short* (it will
                // leave elements behind, but cannot over-read), the history goes on, so that the
                // consequences owned by that property (lost elements, short iterators, leaks) can
                // show; the desync itself is C05's to report.
                // (for C06 also when it is ahead: the double drops that follow are what C06 owns, the
                // element types guard their own memory, and a crash of the worker counts for C06; for
                // C17 as well: what a stale cursor leads to is exactly where the two build profiles
                // part - one stops on a dependency's debug assertion, the other goes on)
                let soft = matches!(self.focus, Some(p) if p != C05 && p != C07)
                    && (o.cursor_remaining < o.len || self.focus == Some(C06) || self.focus == Some(C17))
                    && !self.post_fault;
                if soft {
                    self.stats.soft_cursor_desync += 1;
                } else {
                    fail!(self, [C05], "cursor-desync",
                        "cached old-table cursor believes {} elements remain, old table holds {}",
                        o.cursor_remaining, o.len);
                }
            }
        }
        // ---- C04: capacity() >= len()
        if post.cap < post.len {
            fail!(self, [C04], "capacity-below-len", "capacity() = {} < len() = {}", post.cap, post.len);
        }
        if post.len != post.hook.main_len + post.l() {
            fail!(self, [C01], "len-split", "len() = {} but tables hold {} + {}", post.len, post.hook.main_len, post.l());
        }

        let key_adding = f.key_adding();
        if key_adding {
            if l0 > 0 {
                self.stats.key_adding_at_l += 1;
                self.stats.max_len_key_adding_at_l = self.stats.max_len_key_adding_at_l.max(pre.len);
                if pre.len >= if self.big { 100_000 } else { 1_000 } {
                    self.nt(C02);
                }
                // ---- C04: no allocation while elements wait in the old table (a chain that inserts
                // twice may finish the move with its first insertion and grow with its second)
                let finished_by_earlier_adds = f.adds >= 2 && l0.saturating_sub(f.removed_from_old) <= self.r * (f.adds - 1);
                if obs.alloc.allocs != 0 && !finished_by_earlier_adds {
                    fail!(self, [C04, C02], "alloc-during-resize",
                        "key-adding call allocated {} time(s) while {} elements were still in the old table",
                        obs.alloc.allocs, l0);
                }
            }
            if self.meta[s].nonremove_old_removal && pre.old_present() {
                self.nt(C05);
            }
        }

        // The progress (C03) and work (C02) oracles are evaluated independently, so that a finding
        // of one does not keep the other from being evaluated for the same call.
        let c03: Result<(), Fail> = (|| -> Result<(), Fail> {
            // ---- C03: progress and reclamation
            let removed = f.removed_from_old;
            // a key-adding call that finds (or leaves) nothing to move in the old table frees it
            // before inserting; what follows is judged as a call on a map without an old table
            let mut pre_old = pre.hook.old;
            if let Some(o) = pre_old {
                if key_adding && !f.clears && removed <= o.len && o.len - removed == 0 && matches!(f.kind, Kind::Point) {
                    // (an emptied table cannot gain elements: one that holds some is a new old table)
                let still_same = post.hook.old.map_or(false, |po| po.buckets == o.buckets && po.len == 0);
                    if !still_same {
                        if removed > 0 {
                            self.meta[s].emptied_by_removal = true;
                        }
                        self.episode_end(s, if o.len == 0 { 2 } else { 1 });
                        pre_old = None;
                    }
                }
            }
            // a chain that inserts twice and grew on the way: the old table it started with (if any)
            // was finished and replaced inside the call; the quota cannot be predicted from outside
            let regrew_in_chain = f.adds >= 2 && obs.alloc.allocs > 0 && key_adding;
            match f.kind {
                Kind::Point | Kind::Bulk if regrew_in_chain => {
                    if pre.old_present() {
                        self.episode_end(s, 0);
                    }
                    self.meta[s].episode = None;
                    if post.old_present() {
                        self.episode_start(s, post.l(), 1);
                    }
                }
                Kind::Point | Kind::Bulk => {
                    if f.clears {
                        if post.old_present() {
                            fail!(self, [C03, C01], "old-table-survives-clear", "old table still present after clear/drain");
                        }
                        self.episode_end(s, 3);
                    } else if let Some(o) = pre_old {
                        let after_removal = o.len.saturating_sub(removed);
                        if removed > o.len {
                            fail!(self, [C03], "old-accounting", "removed {} from an old table of {}", removed, o.len);
                        }
                        let rounds = if key_adding { f.adds.max(1) } else { 0 };
                        let mut expect = after_removal;
                        for _ in 0..rounds {
                            expect -= r.min(expect);
                        }
                        if key_adding {
                            if let Some(ep) = self.meta[s].episode.as_mut() {
                                ep.1 += 1;
                            }
                        }
                        match post.hook.old {
                            Some(po) => {
                                if po.len != expect {
                                    fail!(self, [C03], "carry-quota",
                                        "old table had {} elements ({} removed by this call), key_adding={}: expected {} left (R={}), found {}",
                                        o.len, removed, key_adding, expect, r, po.len);
                                }
                                if po.buckets != o.buckets {
                                    fail!(self, [C03], "second-old-table", "old table changed bucket count {} -> {} while present", o.buckets, po.buckets);
                                }
                                if po.len == 0 {
                                    // may only linger if emptied by erase-style routes (now or earlier),
                                    // and never across a key-adding call
                                    let lingering = !key_adding
                                        && ((o.len == 0 && self.meta[s].linger_ok)
                                            || (removed > 0 && f.removed_lingering));
                                    if !lingering {
                                        fail!(self, [C03], "old-table-not-freed",
                                            "old table is empty but still allocated after {} (key_adding={}, removed={})",
                                            self.op_name, key_adding, removed);
                                    }
                                    self.meta[s].linger_ok = true;
                                    if removed > 0 {
                                        self.meta[s].emptied_by_removal = true;
                                    }
                                }
                            }
                            None => {
                                if expect != 0 {
                                    fail!(self, [C03, C01], "old-table-dropped-early",
                                        "old table with {} elements expected to remain was dropped", expect);
                                }
                                let how = if key_adding {
                                    if o.len == 0 { 2 } else { 0 }
                                } else {
                                    self.meta[s].emptied_by_removal = true;
                                    1
                                };
                                self.episode_end(s, how);
                            }
                        }
                    } else {
                        // no old table before the call
                        match post.hook.old {
                            Some(po) => {
                                if !key_adding {
                                    fail!(self, [C03, C02], "resize-started-by-non-insert", "an old table appeared during {}", self.op_name);
                                }
                                // growth: everything that was in main is now old, minus one carry
                                let l_start = pre.hook.main_len.saturating_sub(f.removed_from_main);
                                let expect = l_start - r.min(l_start);
                                // a chain that inserts twice may grow at either insertion: only the
                                // single-insertion case is predicted exactly
                                if po.len != expect && f.adds <= 1 {
                                    fail!(self, [C03], "carry-quota-at-growth",
                                        "growth at {} elements: expected {} left in the old table after the triggering call (R={}), found {}",
                                        l_start, expect, r, po.len);
                                }
                                self.episode_start(s, l_start, 1);
                            }
                            None => {
                                if key_adding && post.hook.main_buckets != pre.hook.main_buckets && pre.hook.main_len > 0 {
                                    // grew and finished within the same call (L0 <= R)
                                    if pre.hook.main_len.saturating_sub(f.removed_from_main) > r * f.adds.max(1) {
                                        fail!(self, [C02, C03], "all-at-once-growth",
                                            "table grew from {} to {} buckets with {} elements and no old table was kept",
                                            pre.hook.main_buckets, post.hook.main_buckets, pre.hook.main_len);
                                    }
                                    self.stats.episodes_started += 1;
                                    self.stats.episodes_finished[0] += 1;
                                    self.nt(C03);
                                }
                            }
                        }
                    }
                }
                Kind::Reserve => {
                    if pre.old_present() && post.old_present() && obs.alloc.allocs > 0 {
                        // carried everything over, then parked the previous main table
                        self.episode_end(s, 4);
                        self.episode_start(s, post.l(), 0);
                    } else if pre.old_present() && !post.old_present() {
                        self.episode_end(s, 4);
                    } else if !pre.old_present() && post.old_present() {
                        // reserve parks the table without moving anything yet
                        self.episode_start(s, post.l(), 0);
                    }
                }
                _ => {
                    if pre.old_present() && !post.old_present() {
                        self.episode_end(s, 5);
                    } else if pre.hook.old.map(|o| o.buckets) != post.hook.old.map(|o| o.buckets) || obs.alloc.allocs > 0 {
                        // a resize started (or was replaced) inside a multi-insert call: its start
                        // was not observed, so it is not an episode the bound is checked for
                        self.meta[s].episode = None;
                    }
                }
            }
            if !post.old_present() {
                self.meta[s].linger_ok = false;
                self.meta[s].nonremove_old_removal = false;
            }
            if let Some((l_start, calls)) = self.meta[s].episode {
                let bound = (l_start + r - 1) / r;
                if calls > bound {
                    fail!(self, [C03], "episode-too-long", "resize that started with L={} still pending after {} key-adding calls (bound {})", l_start, calls, bound);
                }
            }
            // live table allocations
            let live = self.meta[s].live;
            if live > 2 {
                fail!(self, [C03], "three-tables", "map owns {} table allocations", live);
            }
            if live > 1 && !post.old_present() {
                fail!(self, [C03, C06], "table-leak", "map owns {} table allocations but no resize is pending", live);
            }
            if live < 0 {
                fail!(self, [C06, C05], "table-double-free", "map table allocations went negative ({})", live);
            }

            Ok(())
        })();
        let c02: Result<(), Fail> = (|| -> Result<(), Fail> {
            // ---- C02: work per call
            let nh = obs.hashes.len();
            let kind = if f.panicked { Kind::Exempt } else { f.kind };
            match kind {
                Kind::Point => {
                    if key_adding {
                        let q = f.qkey.unwrap_or(u32::MAX);
                        let own = obs.hashes.iter().filter(|h| h.0 == q).count();
                        let others: Vec<&(u32, u32)> = obs.hashes.iter().filter(|h| h.0 != q).collect();
                        // the added key may also be one of the moved elements when an old-table
                        // element is overwritten: allow one more for it
                        let adds = f.adds.max(1);
                        let own_bound = 2 * adds;
                        let r = r * adds;
                        // each other object is re-hashed at most once per insertion the call made
                        let mut seen: BTreeMap<(u32, u32), usize> = BTreeMap::new();
                        let mut dup = None;
                        for h in &others {
                            let c = seen.entry(**h).or_insert(0);
                            *c += 1;
                            if *c > adds {
                                dup = Some(**h);
                            }
                        }
                        if own > own_bound || others.len() > r || nh > r + own_bound || dup.is_some() {
                            fail!(self, [C02], "hash-bound-key-adding",
                                "key-adding call did {} hash computations ({} of the added key, {} of {} other objects, duplicate {:?}); bound R+2 = {}",
                                nh, own, others.len(), seen.len(), dup, r + 2);
                        }
                        if obs.alloc.allocs > adds as u64 {
                            fail!(self, [C02], "alloc-bound-key-adding", "key-adding call allocated {} times", obs.alloc.allocs);
                        }
                    } else {
                        let bound = if f.zero_hash_lookup { 0 } else { 1 };
                        let foreign = obs.hashes.iter().filter(|h| Some(h.0) != f.qkey).count();
                        if nh > bound || foreign > 0 {
                            fail!(self, [C02], "hash-bound-lookup",
                                "lookup/removal/in-place call did {} hash computations ({} of other keys); bound {}", nh, foreign, bound);
                        }
                        if obs.alloc.allocs != 0 {
                            fail!(self, [C02], "alloc-in-lookup", "lookup/removal/in-place call allocated {} times", obs.alloc.allocs);
                        }
                        // "move nothing": main only shrinks by own removals, old only by own removals
                        if post.hook.main_len > pre.hook.main_len {
                            fail!(self, [C02], "moved-in-lookup", "main table grew {} -> {} in a non-adding call", pre.hook.main_len, post.hook.main_len);
                        }
                    }
                }
                Kind::Reserve => {
                    if !pre.old_present() {
                        if nh != 0 {
                            fail!(self, [C02], "hash-in-reserve", "reserve on a map with no resize pending did {} hash computations", nh);
                        }
                        if obs.alloc.allocs > 1 {
                            fail!(self, [C02], "alloc-bound-reserve", "reserve allocated {} times", obs.alloc.allocs);
                        }
                    }
                }
                Kind::Bulk => {
                    if nh != 0 || obs.alloc.allocs != 0 {
                        fail!(self, [C02], "work-in-bulk", "{} did {} hash computations and {} allocations", self.op_name, nh, obs.alloc.allocs);
                    }
                }
                Kind::Extend(n) => {
                    if !pre.old_present() && nh > n * (r + 2) {
                        fail!(self, [C02], "hash-bound-extend", "extend of {} items did {} hash computations; bound {}", n, nh, n * (r + 2));
                    }
                }
                Kind::Shrink | Kind::Exempt => {}
            }

            Ok(())
        })();
        match (c03, c02) {
            (Ok(()), Ok(())) => {}
            (Err(a), Ok(())) => return Err(a),
            (Ok(()), Err(b)) => return Err(b),
            (Err(a), Err(b)) => {
                // report the one the focused property owns, if any
                let own_b = matches!(self.focus, Some(p) if b.has(p) && !a.has(p));
                return Err(if own_b { b } else { a });
            }
        }
        // ---- non-trivial bookkeeping for C01
        if f.listed {
            if l0 > 0 {
                self.stats.nontrivial |= 1 << 20; // C01 half (a)
            }
            if self.meta[s].emptied_by_removal {
                self.stats.nontrivial |= 1 << 21; // C01 half (b)
            }
            if self.stats.nontrivial & (3 << 20) == (3 << 20) {
                self.nt(C01);
            }
        }
        if f.removed_from_old > 0 && f.removed_lingering && post.old_present() {
            self.meta[s].nonremove_old_removal = true;
        }
        Ok(())
    }

    fn episode_start(&mut self, s: usize, l_start: usize, calls: usize) {
        self.stats.episodes_started += 1;
        self.meta[s].episode = Some((l_start, calls));
    }
    fn episode_end(&mut self, s: usize, how: usize) {
        if self.meta[s].episode.take().is_some() {
            self.stats.episodes_finished[how] += 1;
            self.nt(C03);
        }
    }

    // -----------------------------------------------------------------------------------------
    // contents comparison
    // -----------------------------------------------------------------------------------------

    pub fn ledger_check(&mut self, extra: &[Prop]) -> Result<(), Fail> {
        if ledger_has_errors() {
            let errs = ledger_take_errors();
            let mut tags = vec![C05];
            if errs.iter().any(|e| e.contains("double-drop") || e.contains("drop-of-unknown")) {
                tags.push(C06);
            }
            tags.extend_from_slice(extra);
            let detail = errs[0].split(" id=").next().unwrap_or("").to_string();
            return Err(self.mkfail(tags, "ledger", format!("object ledger: {}", errs.join("; ")), detail));
        }
        Ok(())
    }

    /// cheap check after every call
    pub fn quick_check(&mut self, s: usize, tags: &[Prop]) -> Result<(), Fail> {
        self.ledger_check(&[])?;
        let slot = &self.slots[s];
        let len = slot.map.len();
        // len()/is_empty() are also part of C14's "depends only on contents"
        let mut tags: Vec<Prop> = tags.to_vec();
        tags.push(C14);
        if len != slot.model.len() {
            return Err(self.mkfail(tags, "len", format!("len() = {}, reference has {}", len, slot.model.len()), String::new()));
        }
        if slot.map.is_empty() != slot.model.is_empty() {
            return Err(self.mkfail(tags, "is-empty", format!("is_empty() = {} but the reference holds {} elements", slot.map.is_empty(), slot.model.len()), String::new()));
        }
        Ok(())
    }

    /// full comparison of slot `s` against its model: iteration (identities), get for every key
    pub fn full_check(&mut self, s: usize, tags: &[Prop]) -> Result<(), Fail> {
        self.quick_check(s, tags)?;
        self.full_check_inner(s, tags)?;
        self.ledger_check(&[])
    }

    fn full_check_inner(&mut self, s: usize, tags: &[Prop]) -> Result<(), Fail> {
        let mut got: Vec<(u32, u32, u32, u32)> = Vec::with_capacity(self.slots[s].model.len() + 4);
        {
            let slot = &self.slots[s];
            for (k, v) in slot.map.iter() {
                k.check("iter");
                v.check("iter");
                got.push((k.k(), k.id(), v.v(), v.id()));
            }
        }
        got.sort_unstable();
        let want: Vec<(u32, u32, u32, u32)> = self.slots[s].model.iter().map(|(k, e)| (*k, e.kid, e.v, e.vid)).collect();
        if got != want {
            let msg = diff_msg(&got, &want);
            return Err(self.mkfail(tags.to_vec(), "contents", format!("iter() contents differ from the reference: {}", msg), String::new()));
        }
        // every key is found by get, with the right value object
        let n = want.len();
        let step = if n > 4096 { n / 1024 } else { 1 };
        let mut i = 0;
        while i < n {
            let (k, _kid, v, vid) = want[i];
            let _ = self.probe(k);
            let slot = &self.slots[s];
            match slot.map.get(&self.probe_key) {
                Some(val) if val.v() == v && val.id() == vid => {}
                other => {
                    let d = other.map(|x| (x.v(), x.id()));
                    return Err(self.mkfail(tags.to_vec(), "get-after", format!("get({}) = {:?}, reference has value {} (id {})", k, d, v, vid), String::new()));
                }
            }
            i += step;
        }
        // a few absent keys
        for j in 0..3u32 {
            let k = self.universe.wrapping_add(0x4000_0000).wrapping_add(j.wrapping_mul(7919)).wrapping_add(self.op_index as u32);
            if self.slots[s].model.contains_key(&k) {
                continue;
            }
            let _ = self.probe(k);
            if self.slots[s].map.get(&self.probe_key).is_some() {
                return Err(self.mkfail(tags.to_vec(), "get-absent", format!("get({}) found an element the reference does not have", k), String::new()));
            }
        }
        Ok(())
    }

    /// after an op: full check for small maps, periodic for large ones
    pub fn after_op(&mut self, s: usize, tags: &[Prop], force_full: bool) -> Result<(), Fail> {
        let len = self.slots[s].model.len();
        self.since_full[s] += 1;
        let every = if len <= SMALL_LEN {
            FULL_EVERY_SMALL
        } else if len <= 2048 {
            8
        } else {
            64
        };
        if force_full || self.since_full[s] >= every {
            self.since_full[s] = 0;
            self.full_check(s, tags)
        } else {
            self.quick_check(s, tags)
        }
    }

    /// snapshot of what the map really contains (used to re-synchronise after a fault)
    pub fn actual_contents(&self, s: usize) -> Vec<(u32, ME)> {
        let mut v: Vec<(u32, ME)> = self.slots[s]
            .map
            .iter()
            .map(|(k, v)| (k.k(), ME { kid: k.id(), v: v.v(), vid: v.id() }))
            .collect();
        v.sort_by_key(|x| x.0);
        v
    }

    // -----------------------------------------------------------------------------------------
    // end of case: drop everything, ledger and table accounting (C06)
    // -----------------------------------------------------------------------------------------

    pub fn finish(mut self) -> Result<Stats, Fail> {
        let deferred = self.deferred.take();
        DEFERRED.with(|d| *d.borrow_mut() = deferred);
        self.op_name = "teardown";
        self.op_index = usize::MAX;
        for s in 0..2 {
            self.full_check(s, &[C01])?;
        }
        // drop the maps in a window: table deallocations are attributed to the slots
        let vh = VH::default();
        for s in 0..2 {
            let was_split = self.slots[s].map.verif_state().old.map_or(false, |o| o.len > 0);
            let old = std::mem::replace(&mut self.slots[s].map, Map::<F>::with_hasher(vh));
            let prevq = panic_quiet(true);
            let (r, a) = window(|| catch_unwind(AssertUnwindSafe(move || drop(old))));
            panic_quiet(prevq);
            if r.is_err() {
                let (msg, loc) = take_last_panic().unwrap_or_default();
                fail!(self, [C06, C05], "drop-panicked", "dropping the map panicked: {} at {}", msg, norm_loc(&loc));
            }
            self.meta[s].live += a.allocs as i64 - a.deallocs as i64;
            if self.meta[s].live != 0 {
                fail!(self, [C06], "tables-alive-at-end", "{} table allocation(s) still alive after the map was dropped", self.meta[s].live);
            }
            if was_split {
                self.nt(C06);
            }
            self.slots[s].model.clear();
        }
        for s in 0..2 {
            self.full_check_set(s, &[C13])?;
            let was_split = self.sets[s].set.verif_state().old.map_or(false, |o| o.len > 0);
            let old = std::mem::replace(&mut self.sets[s].set, Set::<F>::with_hasher(vh));
            let prevq = panic_quiet(true);
            let (r, a) = window(|| catch_unwind(AssertUnwindSafe(move || drop(old))));
            panic_quiet(prevq);
            if r.is_err() {
                let (msg, loc) = take_last_panic().unwrap_or_default();
                fail!(self, [C06, C05], "drop-panicked", "dropping the set panicked: {} at {}", msg, norm_loc(&loc));
            }
            self.meta[s + 2].live += a.allocs as i64 - a.deallocs as i64;
            if self.meta[s + 2].live != 0 {
                fail!(self, [C06], "tables-alive-at-end", "{} table allocation(s) of a set still alive after it was dropped", self.meta[s + 2].live);
            }
            if was_split {
                self.nt(C06);
            }
            self.sets[s].model.clear();
        }
        self.z_finish()?;
        self.probe_key = F::K::mk(u32::MAX);
        self.ledger_check(&[])?;
        if F::K::TRACKED && !self.post_fault {
            // everything except the probe key and allowed leaks must be dropped by now
            let live = ledger_live_ids();
            let probe_id = self.probe_key.id();
            let stray: Vec<u32> = live
                .into_iter()
                .filter(|id| *id != probe_id && !self.allow_leak.contains(id))
                .collect();
            if !stray.is_empty() {
                fail!(self, [C06], "leak", "{} object(s) never dropped, e.g. ids {:?}", stray.len(), &stray[..stray.len().min(8)]);
            }
        }
        Ok(self.stats)
    }

    /// C06 focus only. A failure owned by another property ended a panic-free history: the
    /// collections are torn down all the same, and an element that is then still alive (or was
    /// dropped twice) is C06's own failure, which the earlier one would otherwise hide. Returns
    /// None when nothing of C06's shows, or when the premise (no panic, no forgotten drain whose
    /// leaks are not registered yet) does not hold.
    pub fn salvage_teardown(mut self, first: &Fail) -> Option<Fail> {
        if !F::K::TRACKED || self.post_fault || self.forget_in_flight || panic_count() != self.panics_at_start || first.oracle.contains("panic") {
            std::mem::forget(self);
            return None;
        }
        self.op_name = "teardown";
        let had_errors = ledger_has_errors();
        let vh = VH::default();
        let m0 = std::mem::replace(&mut self.slots[0].map, Map::<F>::with_hasher(vh));
        let m1 = std::mem::replace(&mut self.slots[1].map, Map::<F>::with_hasher(vh));
        let s0 = std::mem::replace(&mut self.sets[0].set, Set::<F>::with_hasher(vh));
        let s1 = std::mem::replace(&mut self.sets[1].set, Set::<F>::with_hasher(vh));
        let prevq = panic_quiet(true);
        let r = catch_unwind(AssertUnwindSafe(move || {
            drop(m0);
            drop(m1);
            drop(s0);
            drop(s1);
        }));
        panic_quiet(prevq);
        let _ = take_last_panic();
        let mut out = None;
        if r.is_ok() && !had_errors {
            let errs = ledger_take_errors();
            let dd: Vec<&String> = errs.iter().filter(|e| e.contains("double-drop") || e.contains("drop-of-unknown")).collect();
            let live = ledger_live_ids();
            let probe_id = self.probe_key.id();
            let stray: Vec<u32> = live.into_iter().filter(|id| *id != probe_id && !self.allow_leak.contains(id)).collect();
            let after = format!("after the case ended at op#{} {} with a failure of another property ({}: {})", first.op_index, first.op_name, first.oracle, first.msg.chars().take(160).collect::<String>());
            if let Some(e) = dd.first() {
                out = Some(self.mkfail(vec![C06], "ledger-at-salvage", format!("dropping the collections {}: {}", after, e), String::new()));
            } else if !stray.is_empty() {
                out = Some(self.mkfail(vec![C06], "leak-at-salvage", format!("{} object(s) never dropped once all collections were gone, e.g. ids {:?}, {}", stray.len(), &stray[..stray.len().min(8)], after), String::new()));
            }
        }
        std::mem::forget(self);
        out
    }
}

pub fn norm_msg(m: &str) -> String {
    // strip numbers so that the signature is about the site, not the sizes
    let mut out = String::new();
    let mut last_digit = false;
    for c in m.chars().take(120) {
        if c.is_ascii_digit() {
            if !last_digit {
                out.push('#');
            }
            last_digit = true;
        } else {
            out.push(c);
            last_digit = false;
        }
    }
    out
}

fn diff_msg(got: &[(u32, u32, u32, u32)], want: &[(u32, u32, u32, u32)]) -> String {
    let g: BTreeSet<_> = got.iter().collect();
    let w: BTreeSet<_> = want.iter().collect();
    let extra: Vec<_> = g.difference(&w).take(4).collect();
    let missing: Vec<_> = w.difference(&g).take(4).collect();
    let dup = got.windows(2).find(|p| p[0].0 == p[1].0).map(|p| p[0].0);
    format!(
        "{} yielded vs {} expected; unexpected (key,key-id,value,value-id) {:?}; missing {:?}; duplicate key {:?}",
        got.len(),
        want.len(),
        extra,
        missing,
        dup
    )
}
