//! Entry and raw-entry method chains: executed against the map and simulated on the model entry
//! at the same time, step by step.

use crate::elems::*;
use crate::instr::*;
use crate::interp::*;
use crate::ops::*;
use griddle::hash_map::{Entry, OccupiedEntry, RawEntryMut, RawOccupiedEntryMut, RawVacantEntryMut, VacantEntry};

pub struct Sim {
    pub k: u32,
    pub cur: Option<ME>,
    /// the element for the key currently sits in the old table
    pub in_old: bool,
    pub errs: Vec<String>,
    pub added: bool,
    pub adds: usize,
    pub removed_from_old: usize,
    pub removed_from_main: usize,
    /// the removal from the old table went through replace_entry_with (may leave the table)
    pub lingering: bool,
    /// identity of the key object the handle carries (entry API) / would insert (raw API)
    pub new_kid: u32,
    /// identity of the key a vacant entry-API handle holds
    pub vac_kid: u32,
    pub replaced_in_old: bool,
    pub vh: VH,
    /// raw chains on an absent key: the key the lookup is made for instead (absent as well)
    pub probe: Option<u32>,
}

impl Sim {
    /// records the state the entry has now as one it legitimately had (fault oracle of C07)
    fn log(&self) {
        if let Some(me) = self.cur {
            legit_push(self.k, me);
        }
    }
    fn err(&mut self, msg: String) {
        let _s = Suspend::new();
        if self.errs.len() < 8 {
            self.errs.push(msg);
        }
    }
}

macro_rules! sc {
    ($sim:expr, $cond:expr, $($arg:tt)*) => {
        if !($cond) {
            let _s = Suspend::new();
            let m = format!($($arg)*);
            $sim.err(m);
        }
    };
}

fn chk_v<V: ValT>(sim: &mut Sim, what: &str, v: &V) {
    match sim.cur {
        Some(me) => {
            let (gv, gid) = (v.v(), v.id());
            sc!(sim, gv == me.v && gid == me.vid, "{}: value {} (id {}) but reference has {} (id {})", what, gv, gid, me.v, me.vid);
        }
        None => sim.err(format!("{}: handle designates a value but the reference has no entry", what)),
    }
}

fn chk_k<K: KeyT>(sim: &mut Sim, what: &str, k: &K, want_id: u32) {
    k.check(what);
    let (gk, gid) = (k.k(), k.id());
    sc!(sim, gk == sim.k && gid == want_id, "{}: key {} (id {}) but expected key {} (id {})", what, gk, gid, sim.k, want_id);
}

fn note_removed(sim: &mut Sim, lingering: bool) {
    if sim.in_old {
        sim.removed_from_old += 1;
        if lingering {
            sim.lingering = true;
        }
    } else if sim.cur.is_some() && !sim.added {
        // only removals that precede the first insertion matter for the growth prediction
        sim.removed_from_main += 1;
    }
    sim.in_old = false;
    sim.cur = None;
    legit_absent(sim.k);
}

fn note_added(sim: &mut Sim, kid: u32, v: u32, vid: u32) {
    sim.added = true;
    sim.adds += 1;
    sim.in_old = false;
    sim.cur = Some(ME { kid, v, vid });
    sim.log();
}

/// the closure body of (and_)replace_entry_with
fn replace_body<F: Fam>(sim: &mut Sim, k: &F::K, v: F::V, arg: Option<u32>) -> Option<F::V> {
    tick(K_CLOSURE, (k.k(), k.id()), (0, 0));
    let _s = Suspend::new();
    let me = sim.cur;
    match me {
        Some(me) => {
            chk_k(sim, "replace_entry_with key", k, me.kid);
            chk_v(sim, "replace_entry_with value", &v);
            if sim.in_old {
                sim.replaced_in_old = true;
            }
            match arg {
                Some(d) => {
                    let nv = F::V::mk(me.v.wrapping_add(d));
                    sim.cur = Some(ME { kid: me.kid, v: nv.v(), vid: nv.id() });
                    sim.log();
                    drop(v);
                    Some(nv)
                }
                None => {
                    sim.vac_kid = me.kid;
                    note_removed(sim, true);
                    drop(v);
                    None
                }
            }
        }
        None => {
            sim.err("replace_entry_with closure called but the reference has no entry".to_string());
            None
        }
    }
}

fn modify_body<V: ValT>(sim: &mut Sim, v: &mut V, d: u32) {
    tick(K_CLOSURE, (sim.k, 0), (0, 0));
    let _s = Suspend::new();
    chk_v(sim, "and_modify", v);
    if let Some(me) = sim.cur.as_mut() {
        me.v = me.v.wrapping_add(d);
        v.set(me.v);
    }
    sim.log();
}

fn write_through<V: ValT>(sim: &mut Sim, what: &str, r: &mut V, w: Option<u32>) {
    chk_v(sim, what, r);
    if let Some(w) = w {
        r.set(w);
        if let Some(me) = sim.cur.as_mut() {
            me.v = w;
        }
        sim.log();
    }
}

// ---------------------------------------------------------------------------------------------
// entry API
// ---------------------------------------------------------------------------------------------

pub fn run_entry<F: Fam>(m: &mut Map<F>, key: F::K, chain: &Chain, sim: &mut Sim) {
    sim.new_kid = key.id();
    sim.vac_kid = key.id();
    let mut e = m.entry(key);
    let occ = matches!(e, Entry::Occupied(_));
    sc!(sim, occ == sim.cur.is_some(), "entry({}) occupied = {}, reference present = {}", sim.k, occ, sim.cur.is_some());
    if occ != sim.cur.is_some() {
        return;
    }
    for st in &chain.steps {
        e = match *st {
            EStep::Key => {
                let want = match sim.cur {
                    Some(me) => me.kid,
                    None => sim.vac_kid,
                };
                chk_k(sim, "Entry::key", e.key(), want);
                e
            }
            EStep::AndModify(d) => e.and_modify(|v| modify_body(sim, v, d)),
            EStep::AndReplace(arg) => e.and_replace_entry_with(|k, v| replace_body::<F>(sim, k, v, arg)),
        };
        let occ = matches!(e, Entry::Occupied(_));
        sc!(sim, occ == sim.cur.is_some(), "after {:?}: occupied = {}, reference present = {}", st, occ, sim.cur.is_some());
        if occ != sim.cur.is_some() {
            return;
        }
    }
    match chain.end {
        EEnd::Drop => drop(e),
        EEnd::Insert(v, ostep, oend) => {
            let val = F::V::mk(v);
            let vid = val.id();
            let kk_for_log = sim.k;
            let had_key = sim.cur.is_some();
            match sim.cur.as_mut() {
                Some(me) => {
                    me.v = v;
                    me.vid = vid;
                    legit_push(kk_for_log, *me);
                }
                None => {
                    let kid = sim.vac_kid;
                    note_added(sim, kid, v, vid);
                }
            }
            let o = e.insert(val);
            run_occ::<F>(o, ostep, oend, had_key, sim);
        }
        EEnd::OrInsert(v, w) => {
            let val = F::V::mk(v);
            if sim.cur.is_none() {
                let kid = sim.vac_kid;
                note_added(sim, kid, v, val.id());
            }
            let r = e.or_insert(val);
            write_through(sim, "or_insert", r, w);
        }
        EEnd::OrInsertWith(v, w) => {
            let was = sim.cur.is_some();
            let mut called = false;
            let mut made = (0u32, 0u32);
            let (lk, lkid) = (sim.k, sim.vac_kid);
            let r = e.or_insert_with(|| {
                tick(K_CLOSURE, (0, 0), (0, 0));
                called = true;
                let val = F::V::mk(v);
                made = (val.v(), val.id());
                legit_push(lk, ME { kid: lkid, v: made.0, vid: made.1 });
                val
            });
            sc!(sim, called != was, "or_insert_with closure called = {} but entry occupied = {}", called, was);
            if called && !was {
                let kid = sim.vac_kid;
                note_added(sim, kid, made.0, made.1);
            }
            write_through(sim, "or_insert_with", r, w);
        }
        EEnd::OrInsertWithKey(w) => {
            let was = sim.cur.is_some();
            let mut called = false;
            let mut made = (0u32, 0u32);
            let vac_kid = sim.vac_kid;
            let kk = sim.k;
            let mut key_ok = true;
            let r = e.or_insert_with_key(|k| {
                tick(K_CLOSURE, (k.k(), k.id()), (0, 0));
                called = true;
                key_ok = k.k() == kk && k.id() == vac_kid;
                let val = F::V::mk(k.k().wrapping_mul(3).wrapping_add(1));
                made = (val.v(), val.id());
                legit_push(kk, ME { kid: vac_kid, v: made.0, vid: made.1 });
                val
            });
            sc!(sim, called != was, "or_insert_with_key closure called = {} but entry occupied = {}", called, was);
            sc!(sim, key_ok, "or_insert_with_key closure saw the wrong key object");
            if called && !was {
                note_added(sim, vac_kid, made.0, made.1);
            }
            write_through(sim, "or_insert_with_key", r, w);
        }
        EEnd::OrDefault(w) => {
            let was = sim.cur.is_some();
            if !was {
                // the default value (0) exists before any write through the returned reference
                legit_push(sim.k, ME { kid: sim.vac_kid, v: 0, vid: 0 });
            }
            let r = e.or_default();
            if !was {
                let kid = sim.vac_kid;
                let (v, vid) = (r.v(), r.id());
                sc!(sim, v == 0, "or_default inserted value {}", v);
                note_added(sim, kid, v, vid);
            }
            write_through(sim, "or_default", r, w);
        }
        EEnd::Match(ostep, oend, vend) => match e {
            Entry::Occupied(o) => run_occ::<F>(o, ostep, oend, true, sim),
            Entry::Vacant(v) => run_vac::<F>(v, vend, sim),
        },
    }
}

fn run_occ<F: Fam>(mut o: OccupiedEntry<'_, F::K, F::V, VH>, ostep: OStep, oend: OEnd, has_key: bool, sim: &mut Sim) {
    let me = match sim.cur {
        Some(me) => me,
        None => {
            sim.err("occupied handle but the reference has no entry".to_string());
            return;
        }
    };
    match ostep {
        OStep::Key | OStep::InsertKey => chk_k(sim, "OccupiedEntry::key", o.key(), me.kid),
        OStep::Get | OStep::GetKeyValue => chk_v(sim, "OccupiedEntry::get", o.get()),
        OStep::GetMut(d) | OStep::GetKeyValueMut(d) => {
            let r = o.get_mut();
            let w = me.v.wrapping_add(d);
            write_through(sim, "OccupiedEntry::get_mut", r, Some(w));
        }
        OStep::Insert(v) => {
            let val = F::V::mk(v);
            let vid = val.id();
            let old = o.insert(val);
            chk_v(sim, "OccupiedEntry::insert (returned value)", &old);
            sim.cur = Some(ME { kid: me.kid, v, vid });
            sim.log();
            drop(old);
        }
    }
    let me = sim.cur.unwrap();
    match oend {
        OEnd::Drop | OEnd::IntoKey | OEnd::IntoKeyValue(_) => drop(o),
        OEnd::Remove => {
            let v = o.remove();
            chk_v(sim, "OccupiedEntry::remove", &v);
            note_removed(sim, false);
            drop(v);
        }
        OEnd::RemoveEntry => {
            let (k, v) = o.remove_entry();
            chk_k(sim, "OccupiedEntry::remove_entry key", &k, me.kid);
            chk_v(sim, "OccupiedEntry::remove_entry value", &v);
            note_removed(sim, false);
            drop((k, v));
        }
        OEnd::IntoMut(w) => {
            let r = o.into_mut();
            write_through(sim, "OccupiedEntry::into_mut", r, Some(w));
        }
        OEnd::ReplaceEntry(v) => {
            if has_key {
                let val = F::V::mk(v);
                let vid = val.id();
                let (ok, ov) = o.replace_entry(val);
                chk_k(sim, "replace_entry old key", &ok, me.kid);
                chk_v(sim, "replace_entry old value", &ov);
                sim.cur = Some(ME { kid: sim.new_kid, v, vid });
                sim.log();
                drop((ok, ov));
            } else {
                drop(o);
            }
        }
        OEnd::ReplaceKey => {
            if has_key {
                let ok = o.replace_key();
                chk_k(sim, "replace_key old key", &ok, me.kid);
                sim.cur = Some(ME { kid: sim.new_kid, v: me.v, vid: me.vid });
                sim.log();
                drop(ok);
            } else {
                drop(o);
            }
        }
        OEnd::ReplaceWith(arg, tail) => {
            let e2 = o.replace_entry_with(|k, v| replace_body::<F>(sim, k, v, arg));
            let occ = matches!(e2, Entry::Occupied(_));
            sc!(sim, occ == sim.cur.is_some(), "replace_entry_with returned occupied = {}, reference present = {}", occ, sim.cur.is_some());
            if occ != sim.cur.is_some() {
                return;
            }
            match (e2, tail) {
                (e2, Tail::Drop) => drop(e2),
                (Entry::Occupied(o2), Tail::RemoveOrInsert(_)) => {
                    let v = o2.remove();
                    chk_v(sim, "remove after replace_entry_with", &v);
                    note_removed(sim, false);
                    drop(v);
                }
                (Entry::Vacant(v2), Tail::RemoveOrInsert(x)) => run_vac::<F>(v2, VEnd::Insert(x, None), sim),
                (Entry::Occupied(o2), Tail::WriteOrInsert(x)) => {
                    let r = o2.into_mut();
                    write_through(sim, "into_mut after replace_entry_with", r, Some(x));
                }
                (Entry::Vacant(v2), Tail::WriteOrInsert(x)) => run_vac::<F>(v2, VEnd::Insert(x, Some(x.wrapping_add(1))), sim),
                (Entry::Occupied(o2), Tail::Peek) => chk_v(sim, "get after replace_entry_with", o2.get()),
                (Entry::Vacant(v2), Tail::Peek) => run_vac::<F>(v2, VEnd::IntoKey, sim),
            }
        }
    }
}

fn run_vac<F: Fam>(v: VacantEntry<'_, F::K, F::V, VH>, vend: VEnd, sim: &mut Sim) {
    if sim.cur.is_some() {
        sim.err("vacant handle but the reference has an entry".to_string());
        return;
    }
    let vac_kid = sim.vac_kid;
    match vend {
        VEnd::Drop => drop(v),
        VEnd::Key => chk_k(sim, "VacantEntry::key", v.key(), vac_kid),
        VEnd::IntoKey => {
            let k = v.into_key();
            chk_k(sim, "VacantEntry::into_key", &k, vac_kid);
            drop(k);
        }
        VEnd::Insert(x, w) | VEnd::InsertHashedNocheck(x, w) | VEnd::InsertWithHasher(x, w) => {
            let val = F::V::mk(x);
            note_added(sim, vac_kid, x, val.id());
            let r = v.insert(val);
            write_through(sim, "VacantEntry::insert", r, w);
        }
    }
}

// ---------------------------------------------------------------------------------------------
// raw entry API
// ---------------------------------------------------------------------------------------------

/// `q` is the query key (dropped by the harness), `key` the owned key a vacant entry would insert
pub fn run_raw<F: Fam>(m: &mut Map<F>, q: F::K, key: F::K, how: RawHow, chain: &Chain, sim: &mut Sim) {
    sim.new_kid = key.id();
    let kk = sim.probe.unwrap_or(sim.k);
    let vh = sim.vh;
    let hash = vh.hash_of(kk as u64);
    let b = m.raw_entry_mut();
    let mut e = match how {
        RawHow::FromKey => b.from_key(&q),
        RawHow::FromKeyHashedNocheck => b.from_key_hashed_nocheck(hash, &q),
        RawHow::FromHash => b.from_hash(hash, |k| {
            tick(K_EQ, (k.k(), k.id()), (kk, 0));
            k.k() == kk
        }),
    };
    let occ = matches!(e, RawEntryMut::Occupied(_));
    sc!(sim, occ == sim.cur.is_some(), "raw_entry_mut({}) occupied = {}, reference present = {}", kk, occ, sim.cur.is_some());
    if occ != sim.cur.is_some() {
        return;
    }
    for st in &chain.steps {
        e = match *st {
            EStep::Key => e,
            EStep::AndModify(d) => e.and_modify(|k, v| {
                if let Some(me) = sim.cur {
                    chk_k(sim, "RawEntryMut::and_modify key", &*k, me.kid);
                }
                modify_body(sim, v, d)
            }),
            EStep::AndReplace(arg) => e.and_replace_entry_with(|k, v| replace_body::<F>(sim, k, v, arg)),
        };
        let occ = matches!(e, RawEntryMut::Occupied(_));
        sc!(sim, occ == sim.cur.is_some(), "after raw {:?}: occupied = {}, reference present = {}", st, occ, sim.cur.is_some());
        if occ != sim.cur.is_some() {
            return;
        }
    }
    let mut key = Some(key);
    match chain.end {
        EEnd::Drop | EEnd::OrInsertWithKey(_) | EEnd::OrDefault(_) => drop(e),
        EEnd::Insert(v, ostep, oend) => {
            let val = F::V::mk(v);
            let vid = val.id();
            let kk_for_log = sim.k;
            match sim.cur.as_mut() {
                Some(me) => {
                    me.v = v;
                    me.vid = vid;
                    legit_push(kk_for_log, *me);
                }
                None => {
                    let kid = sim.new_kid;
                    note_added(sim, kid, v, vid);
                }
            }
            let o = e.insert(key.take().unwrap(), val);
            run_raw_occ::<F>(o, ostep, oend, sim);
        }
        EEnd::OrInsert(v, w) => {
            let val = F::V::mk(v);
            if sim.cur.is_none() {
                let kid = sim.new_kid;
                note_added(sim, kid, v, val.id());
            }
            let (k, r) = e.or_insert(key.take().unwrap(), val);
            let want = sim.cur.map_or(0, |me| me.kid);
            chk_k(sim, "RawEntryMut::or_insert key", &*k, want);
            write_through(sim, "RawEntryMut::or_insert", r, w);
        }
        EEnd::OrInsertWith(v, w) => {
            let was = sim.cur.is_some();
            let mut called = false;
            let mut made = (0u32, 0u32);
            let kobj = key.take().unwrap();
            let (lk, lkid) = (sim.k, sim.new_kid);
            let (k, r) = e.or_insert_with(|| {
                tick(K_CLOSURE, (0, 0), (0, 0));
                called = true;
                let val = F::V::mk(v);
                made = (val.v(), val.id());
                legit_push(lk, ME { kid: lkid, v: made.0, vid: made.1 });
                (kobj, val)
            });
            sc!(sim, called != was, "raw or_insert_with closure called = {} but entry occupied = {}", called, was);
            if called && !was {
                let kid = sim.new_kid;
                note_added(sim, kid, made.0, made.1);
            }
            let want = sim.cur.map_or(0, |me| me.kid);
            chk_k(sim, "RawEntryMut::or_insert_with key", &*k, want);
            write_through(sim, "RawEntryMut::or_insert_with", r, w);
        }
        EEnd::Match(ostep, oend, vend) => match e {
            RawEntryMut::Occupied(o) => run_raw_occ::<F>(o, ostep, oend, sim),
            RawEntryMut::Vacant(v) => run_raw_vac::<F>(v, key.take().unwrap(), vend, sim),
        },
    }
    drop(key);
    drop(q);
}

fn run_raw_occ<F: Fam>(mut o: RawOccupiedEntryMut<'_, F::K, F::V, VH>, ostep: OStep, oend: OEnd, sim: &mut Sim) {
    let me = match sim.cur {
        Some(me) => me,
        None => {
            sim.err("raw occupied handle but the reference has no entry".to_string());
            return;
        }
    };
    match ostep {
        OStep::Key => chk_k(sim, "RawOccupiedEntryMut::key", o.key(), me.kid),
        OStep::Get => chk_v(sim, "RawOccupiedEntryMut::get", o.get()),
        OStep::GetMut(d) => {
            let r = o.get_mut();
            write_through(sim, "RawOccupiedEntryMut::get_mut", r, Some(me.v.wrapping_add(d)));
        }
        OStep::Insert(v) => {
            let val = F::V::mk(v);
            let vid = val.id();
            let old = o.insert(val);
            chk_v(sim, "RawOccupiedEntryMut::insert (returned value)", &old);
            sim.cur = Some(ME { kid: me.kid, v, vid });
            sim.log();
            drop(old);
        }
        OStep::GetKeyValue => {
            let (k, v) = o.get_key_value();
            chk_k(sim, "RawOccupiedEntryMut::get_key_value key", k, me.kid);
            chk_v(sim, "RawOccupiedEntryMut::get_key_value value", v);
        }
        OStep::GetKeyValueMut(d) => {
            let (k, v) = o.get_key_value_mut();
            chk_k(sim, "RawOccupiedEntryMut::get_key_value_mut key", &*k, me.kid);
            write_through(sim, "RawOccupiedEntryMut::get_key_value_mut", v, Some(me.v.wrapping_add(d)));
        }
        OStep::InsertKey => {
            // only ever an *equal* key: hash and equality of the stored key do not change
            chk_k(sim, "RawOccupiedEntryMut::key_mut", &*o.key_mut(), me.kid);
            let nk = F::K::mk(sim.k);
            let nkid = nk.id();
            let old = o.insert_key(nk);
            chk_k(sim, "RawOccupiedEntryMut::insert_key (returned key)", &old, me.kid);
            sim.cur = Some(ME { kid: nkid, v: me.v, vid: me.vid });
            sim.log();
            drop(old);
        }
    }
    let me = sim.cur.unwrap();
    match oend {
        OEnd::Drop | OEnd::ReplaceEntry(_) | OEnd::ReplaceKey => drop(o),
        OEnd::Remove => {
            let v = o.remove();
            chk_v(sim, "RawOccupiedEntryMut::remove", &v);
            note_removed(sim, false);
            drop(v);
        }
        OEnd::RemoveEntry => {
            let (k, v) = o.remove_entry();
            chk_k(sim, "RawOccupiedEntryMut::remove_entry key", &k, me.kid);
            chk_v(sim, "RawOccupiedEntryMut::remove_entry value", &v);
            note_removed(sim, false);
            drop((k, v));
        }
        OEnd::IntoMut(w) => {
            let r = o.into_mut();
            write_through(sim, "RawOccupiedEntryMut::into_mut", r, Some(w));
        }
        OEnd::IntoKey => {
            let k = o.into_key();
            chk_k(sim, "RawOccupiedEntryMut::into_key", &*k, me.kid);
        }
        OEnd::IntoKeyValue(w) => {
            let (k, r) = o.into_key_value();
            chk_k(sim, "RawOccupiedEntryMut::into_key_value key", &*k, me.kid);
            write_through(sim, "RawOccupiedEntryMut::into_key_value", r, Some(w));
        }
        OEnd::ReplaceWith(arg, tail) => {
            let e2 = o.replace_entry_with(|k, v| replace_body::<F>(sim, k, v, arg));
            let occ = matches!(e2, RawEntryMut::Occupied(_));
            sc!(sim, occ == sim.cur.is_some(), "raw replace_entry_with returned occupied = {}, reference present = {}", occ, sim.cur.is_some());
            if occ != sim.cur.is_some() {
                return;
            }
            match (e2, tail) {
                (e2, Tail::Drop) => drop(e2),
                (RawEntryMut::Occupied(o2), Tail::RemoveOrInsert(_)) => {
                    let v = o2.remove();
                    chk_v(sim, "remove after raw replace_entry_with", &v);
                    note_removed(sim, false);
                    drop(v);
                }
                (RawEntryMut::Vacant(v2), Tail::RemoveOrInsert(x)) => {
                    let nk = F::K::mk(sim.k);
                    sim.new_kid = nk.id();
                    run_raw_vac::<F>(v2, nk, VEnd::Insert(x, None), sim)
                }
                (RawEntryMut::Occupied(o2), Tail::WriteOrInsert(x)) => {
                    let r = o2.into_mut();
                    write_through(sim, "into_mut after raw replace_entry_with", r, Some(x));
                }
                (RawEntryMut::Vacant(v2), Tail::WriteOrInsert(x)) => {
                    let nk = F::K::mk(sim.k);
                    sim.new_kid = nk.id();
                    run_raw_vac::<F>(v2, nk, VEnd::InsertHashedNocheck(x, Some(x.wrapping_add(1))), sim)
                }
                (RawEntryMut::Occupied(o2), Tail::Peek) => chk_v(sim, "get after raw replace_entry_with", o2.get()),
                (RawEntryMut::Vacant(v2), Tail::Peek) => drop(v2),
            }
        }
    }
}

fn run_raw_vac<F: Fam>(v: RawVacantEntryMut<'_, F::K, F::V, VH>, key: F::K, vend: VEnd, sim: &mut Sim) {
    if sim.cur.is_some() {
        sim.err("raw vacant handle but the reference has an entry".to_string());
        return;
    }
    let kid = key.id();
    let vh = sim.vh;
    let hash = vh.hash_of(sim.k as u64);
    match vend {
        VEnd::Drop | VEnd::Key | VEnd::IntoKey => {
            drop(v);
            drop(key);
        }
        VEnd::Insert(x, w) => {
            let val = F::V::mk(x);
            note_added(sim, kid, x, val.id());
            let (k, r) = v.insert(key, val);
            chk_k(sim, "RawVacantEntryMut::insert key", &*k, kid);
            write_through(sim, "RawVacantEntryMut::insert", r, w);
        }
        VEnd::InsertHashedNocheck(x, w) => {
            let val = F::V::mk(x);
            note_added(sim, kid, x, val.id());
            let (k, r) = v.insert_hashed_nocheck(hash, key, val);
            chk_k(sim, "RawVacantEntryMut::insert_hashed_nocheck key", &*k, kid);
            write_through(sim, "RawVacantEntryMut::insert_hashed_nocheck", r, w);
        }
        VEnd::InsertWithHasher(x, w) => {
            let val = F::V::mk(x);
            note_added(sim, kid, x, val.id());
            let (k, r) = v.insert_with_hasher(hash, key, val, |k: &F::K| {
                // the caller-supplied hasher re-hashes moved elements: it is the map's hash
                k.check("insert_with_hasher");
                tick(K_HASH, (k.k(), k.id()), (0, 0));
                hlog_push(k.k(), k.id());
                vh.hash_of(k.k() as u64)
            });
            chk_k(sim, "RawVacantEntryMut::insert_with_hasher key", &*k, kid);
            write_through(sim, "RawVacantEntryMut::insert_with_hasher", r, w);
        }
    }
}
