//! Element families (plain / tracked) and the deterministic hashers.

use crate::instr::*;
use serde::{Deserialize, Serialize};
use std::fmt::Debug;
use std::hash::{BuildHasher, Hash, Hasher};
use std::mem::ManuallyDrop;

// ---------------------------------------------------------------------------------------------
// Hashers
// ---------------------------------------------------------------------------------------------

#[derive(Clone, Copy, Debug, PartialEq, Eq, Serialize, Deserialize)]
pub enum HMode {
    Good,
    Low,
    Collide,
    Identity,
}

/// A `BuildHasher` whose behaviour is a field of the value: two maps of the same type can hash
/// differently.
#[derive(Clone, Copy, Debug, PartialEq, Eq, Serialize, Deserialize)]
pub struct VH {
    pub mode: HMode,
    pub seed: u64,
}

static DEFAULT_CTR: std::sync::atomic::AtomicU64 = std::sync::atomic::AtomicU64::new(0);

/// restarts the sequence of seeds that `VH::default()` hands out (start of every case)
pub fn vh_default_reset() {
    DEFAULT_CTR.store(0, std::sync::atomic::Ordering::Relaxed);
}

/// Like `std::collections::hash_map::RandomState`, every `default()` instance hashes differently
/// (two `S::default()` are not interchangeable) - but deterministically: the n-th instance created
/// since the start of the case always gets the same seed.
impl Default for VH {
    fn default() -> Self {
        let n = DEFAULT_CTR.fetch_add(1, std::sync::atomic::Ordering::Relaxed);
        VH {
            mode: HMode::Good,
            seed: splitmix(n ^ 0x5eed_5eed),
        }
    }
}

#[inline]
pub fn splitmix(mut x: u64) -> u64 {
    x = x.wrapping_add(0x9E37_79B9_7F4A_7C15);
    x = (x ^ (x >> 30)).wrapping_mul(0xBF58_476D_1CE4_E5B9);
    x = (x ^ (x >> 27)).wrapping_mul(0x94D0_49BB_1331_11EB);
    x ^ (x >> 31)
}

impl VH {
    /// The hash the map computes for a key with payload `k` (pure; no instrumentation).
    #[inline]
    pub fn hash_of(&self, k: u64) -> u64 {
        match self.mode {
            HMode::Good => splitmix(k ^ self.seed),
            HMode::Low => {
                let b = splitmix(k ^ self.seed) & 7;
                // 3 bits of entropy, visible both in the low bits (position) and the top 7 (tag)
                (b << 58) | (b << 4) | b
            }
            HMode::Collide => splitmix(self.seed) | 1,
            HMode::Identity => k.wrapping_add(self.seed & 0xffff),
        }
    }
}

pub struct VHasher {
    vh: VH,
    acc: u64,
}

impl Hasher for VHasher {
    #[inline]
    fn finish(&self) -> u64 {
        self.vh.hash_of(self.acc)
    }
    #[inline]
    fn write(&mut self, bytes: &[u8]) {
        for b in bytes {
            self.acc = self.acc.wrapping_mul(0x100).wrapping_add(*b as u64);
        }
    }
    #[inline]
    fn write_u32(&mut self, i: u32) {
        self.acc = i as u64;
    }
}

impl BuildHasher for VH {
    type Hasher = VHasher;
    #[inline]
    fn build_hasher(&self) -> VHasher {
        VHasher { vh: *self, acc: 0 }
    }
}

// ---------------------------------------------------------------------------------------------
// Element traits
// ---------------------------------------------------------------------------------------------

/// A borrowed form of both key types (`K: Borrow<QV>`), as `str` is of `String`: lookups, removals
/// and indexing accept it in place of `&K`. Its `Hash` and `Eq` agree with the keys' (payload only).
#[repr(transparent)]
pub struct QV(pub u32);

impl QV {
    pub fn of(k: &u32) -> &QV {
        // SAFETY: QV is repr(transparent) over u32
        unsafe { &*(k as *const u32 as *const QV) }
    }
}
impl Hash for QV {
    fn hash<H: Hasher>(&self, state: &mut H) {
        tick(K_HASH, (self.0, 0), (0, 0));
        hlog_push(self.0, 0);
        state.write_u32(self.0);
    }
}
impl PartialEq for QV {
    fn eq(&self, o: &QV) -> bool {
        tick(K_EQ, (self.0, 0), (o.0, 0));
        self.0 == o.0
    }
}
impl Eq for QV {}
impl std::borrow::Borrow<QV> for PK {
    fn borrow(&self) -> &QV {
        QV::of(&self.0)
    }
}
impl std::borrow::Borrow<QV> for TK {
    fn borrow(&self) -> &QV {
        self.check("borrow");
        QV::of(&self.k)
    }
}

pub trait KeyT:
    Hash + Eq + Clone + Debug + Send + Sync + Serialize + for<'de> Deserialize<'de> + 'static
{
    const TRACKED: bool;
    fn mk(k: u32) -> Self;
    fn k(&self) -> u32;
    fn id(&self) -> u32;
    /// asserts (through the ledger) that the object is live and intact
    fn check(&self, access: &str);
}

pub trait ValT:
    Clone + PartialEq + Eq + Debug + Default + Send + Sync + Serialize + for<'de> Deserialize<'de> + 'static
{
    fn mk(v: u32) -> Self;
    fn v(&self) -> u32;
    fn set(&mut self, v: u32);
    fn id(&self) -> u32;
    fn check(&self, access: &str);
}

pub trait Fam: 'static {
    const NAME: &'static str;
    type K: KeyT;
    type V: ValT;
    /// `Extend<(&K, &V)>` only exists for `Copy` elements
    fn extend_ref(
        _map: &mut griddle::HashMap<Self::K, Self::V, VH>,
        _items: &[(Self::K, Self::V)],
    ) -> bool {
        false
    }
    fn set_extend_ref(_set: &mut griddle::HashSet<Self::K, VH>, _items: &[Self::K]) -> bool {
        false
    }
    /// `ParallelExtend<(&K, &V)>` / `ParallelExtend<&T>` (rayon feature), `Copy` elements only
    fn par_extend_ref(
        _map: &mut griddle::HashMap<Self::K, Self::V, VH>,
        _items: &[(Self::K, Self::V)],
    ) -> bool {
        false
    }
    /// lookups / indexing / removal through the borrowed form `&QV` of the key (written per
    /// family, on the concrete types, so that `K: Borrow<QV>` does not disturb inference elsewhere)
    fn lookup_qv(map: &mut griddle::HashMap<Self::K, Self::V, VH>, q: &QV, which: u8, w: Option<u32>) -> Result<Option<(u32, u32, u32, u32)>, bool>;
    fn index_qv(map: &griddle::HashMap<Self::K, Self::V, VH>, q: &QV) -> (u32, u32);
    fn remove_qv(map: &mut griddle::HashMap<Self::K, Self::V, VH>, q: &QV, entry: bool) -> Option<(u32, u32, u32, u32)>;
    fn set_qv(set: &mut griddle::HashSet<Self::K, VH>, q: &QV, which: u8) -> Option<Option<(u32, u32)>>;
    fn set_par_extend_ref(_set: &mut griddle::HashSet<Self::K, VH>, _items: &[Self::K]) -> bool {
        false
    }
}

// ---------------------------------------------------------------------------------------------
// Plain family
// ---------------------------------------------------------------------------------------------

#[derive(Clone, Copy, Debug)]
pub struct PK(pub u32);
#[derive(Clone, Copy, Debug, Default)]
pub struct PV(pub u32);

impl Serialize for PK {
    fn serialize<S: serde::Serializer>(&self, s: S) -> Result<S::Ok, S::Error> {
        s.serialize_u32(self.0)
    }
}
impl<'de> Deserialize<'de> for PK {
    fn deserialize<D: serde::Deserializer<'de>>(d: D) -> Result<PK, D::Error> {
        Ok(PK(u32::deserialize(d)?))
    }
}
impl Serialize for PV {
    fn serialize<S: serde::Serializer>(&self, s: S) -> Result<S::Ok, S::Error> {
        s.serialize_u32(self.0)
    }
}
impl<'de> Deserialize<'de> for PV {
    fn deserialize<D: serde::Deserializer<'de>>(d: D) -> Result<PV, D::Error> {
        Ok(PV(u32::deserialize(d)?))
    }
}

impl Hash for PK {
    #[inline]
    fn hash<H: Hasher>(&self, state: &mut H) {
        tick(K_HASH, (self.0, 0), (0, 0));
        hlog_push(self.0, 0);
        state.write_u32(self.0);
    }
}
impl PartialEq for PK {
    #[inline]
    fn eq(&self, o: &PK) -> bool {
        tick(K_EQ, (self.0, 0), (o.0, 0));
        self.0 == o.0
    }
}
impl Eq for PK {}
impl PartialEq for PV {
    #[inline]
    fn eq(&self, o: &PV) -> bool {
        tick(K_VEQ, (self.0, 0), (o.0, 0));
        self.0 == o.0
    }
}
impl Eq for PV {}

impl KeyT for PK {
    const TRACKED: bool = false;
    fn mk(k: u32) -> Self {
        PK(k)
    }
    fn k(&self) -> u32 {
        self.0
    }
    fn id(&self) -> u32 {
        0
    }
    fn check(&self, _access: &str) {}
}
impl ValT for PV {
    fn mk(v: u32) -> Self {
        PV(v)
    }
    fn v(&self) -> u32 {
        self.0
    }
    fn set(&mut self, v: u32) {
        self.0 = v;
    }
    fn id(&self) -> u32 {
        0
    }
    fn check(&self, _access: &str) {}
}

pub struct FamP;

macro_rules! qv_impl {
    ($K:ty, $V:ty) => {
        fn lookup_qv(m: &mut griddle::HashMap<$K, $V, VH>, q: &QV, which: u8, w: Option<u32>) -> Result<Option<(u32, u32, u32, u32)>, bool> {
            let kk = q.0;
            match which {
                0 => Ok(m.get(q).map(|v| (kk, 0, v.v(), v.id()))),
                1 => Ok(m.get_mut(q).map(|v| {
                    let r = (kk, 0, v.v(), v.id());
                    if let Some(w) = w {
                        v.set(w);
                    }
                    r
                })),
                2 => Ok(m.get_key_value(q).map(|(k, v)| {
                    k.check("get_key_value");
                    (k.k(), k.id(), v.v(), v.id())
                })),
                3 => Ok(m.get_key_value_mut(q).map(|(k, v)| {
                    k.check("get_key_value_mut");
                    let r = (k.k(), k.id(), v.v(), v.id());
                    if let Some(w) = w {
                        v.set(w);
                    }
                    r
                })),
                _ => Err(m.contains_key(q)),
            }
        }
        fn index_qv(m: &griddle::HashMap<$K, $V, VH>, q: &QV) -> (u32, u32) {
            let v = &m[q];
            (v.v(), v.id())
        }
        fn remove_qv(m: &mut griddle::HashMap<$K, $V, VH>, q: &QV, entry: bool) -> Option<(u32, u32, u32, u32)> {
            if entry {
                m.remove_entry(q).map(|(k, v)| {
                    k.check("remove_entry");
                    v.check("remove_entry");
                    (k.k(), k.id(), v.v(), v.id())
                })
            } else {
                m.remove(q).map(|v| {
                    v.check("remove");
                    (q.0, 0, v.v(), v.id())
                })
            }
        }
        /// which: 2 remove, 3 take, 4 get, 5 contains (the set operations that take `&Q`);
        /// None for any other operation
        fn set_qv(s: &mut griddle::HashSet<$K, VH>, q: &QV, which: u8) -> Option<Option<(u32, u32)>> {
            match which {
                2 => Some(if s.remove(q) { Some((q.0, 0)) } else { None }),
                3 => Some(s.take(q).map(|k| (k.k(), k.id()))),
                4 => Some(s.get(q).map(|k| (k.k(), k.id()))),
                5 => Some(if s.contains(q) { Some((q.0, 0)) } else { None }),
                _ => None,
            }
        }
    };
}

impl Fam for FamP {
    const NAME: &'static str = "P";
    type K = PK;
    type V = PV;
    qv_impl!(PK, PV);
    fn extend_ref(map: &mut griddle::HashMap<PK, PV, VH>, items: &[(PK, PV)]) -> bool {
        map.extend(items.iter().map(|(k, v)| (k, v)));
        true
    }
    fn set_extend_ref(set: &mut griddle::HashSet<PK, VH>, items: &[PK]) -> bool {
        set.extend(items.iter());
        true
    }
    fn par_extend_ref(map: &mut griddle::HashMap<PK, PV, VH>, items: &[(PK, PV)]) -> bool {
        use rayon::prelude::*;
        map.par_extend(items.par_iter().map(|(k, v)| (k, v)));
        true
    }
    fn set_par_extend_ref(set: &mut griddle::HashSet<PK, VH>, items: &[PK]) -> bool {
        use rayon::prelude::*;
        set.par_extend(items.par_iter());
        true
    }
}

// ---------------------------------------------------------------------------------------------
// Tracked family: heap-owning, Drop, identity, canary
// ---------------------------------------------------------------------------------------------

const KEY_MAGIC: u32 = 0x5EED_C0DE;
const VAL_MAGIC: u32 = 0x0DD_BA11;

pub struct TK {
    k: u32,
    id: u32,
    guard: ManuallyDrop<Box<u32>>,
}
pub struct TV {
    v: u32,
    id: u32,
    guard: ManuallyDrop<Box<u32>>,
}

impl TK {
    fn new(k: u32) -> TK {
        let _s = Suspend::new();
        let id = ledger_new_id();
        TK {
            k,
            id,
            guard: ManuallyDrop::new(Box::new(k ^ KEY_MAGIC ^ id)),
        }
    }
}
impl TV {
    fn new(v: u32) -> TV {
        let _s = Suspend::new();
        let id = ledger_new_id();
        TV {
            v,
            id,
            guard: ManuallyDrop::new(Box::new(VAL_MAGIC ^ id)),
        }
    }
}

impl Drop for TK {
    fn drop(&mut self) {
        let _s = Suspend::new();
        let live = ledger_is_live(self.id);
        ledger_drop(self.id, "key");
        if live {
            if **self.guard != self.k ^ KEY_MAGIC ^ self.id {
                ledger_error(format!("canary-broken key id={} at drop", self.id));
            }
            unsafe { ManuallyDrop::drop(&mut self.guard) };
        }
        // a second drop of the same object must not free the box again: the ledger has recorded
        // the double drop, which fails the case.
    }
}
impl Drop for TV {
    fn drop(&mut self) {
        let _s = Suspend::new();
        let live = ledger_is_live(self.id);
        ledger_drop(self.id, "value");
        if live {
            if **self.guard != VAL_MAGIC ^ self.id {
                ledger_error(format!("canary-broken value id={} at drop", self.id));
            }
            unsafe { ManuallyDrop::drop(&mut self.guard) };
        }
    }
}

impl Clone for TK {
    fn clone(&self) -> TK {
        self.check("clone");
        tick(K_CLONE, (self.k, self.id), (0, 0));
        TK::new(self.k)
    }
}
impl Clone for TV {
    fn clone(&self) -> TV {
        self.check("clone");
        tick(K_CLONE, (u32::MAX, self.id), (0, 0));
        TV::new(self.v)
    }
}

impl Debug for TK {
    fn fmt(&self, f: &mut std::fmt::Formatter<'_>) -> std::fmt::Result {
        write!(f, "TK({})", self.k)
    }
}
impl Debug for TV {
    fn fmt(&self, f: &mut std::fmt::Formatter<'_>) -> std::fmt::Result {
        write!(f, "TV({})", self.v)
    }
}
impl Default for TV {
    fn default() -> TV {
        TV::new(0)
    }
}

impl Hash for TK {
    fn hash<H: Hasher>(&self, state: &mut H) {
        self.check("hash");
        tick(K_HASH, (self.k, self.id), (0, 0));
        hlog_push(self.k, self.id);
        state.write_u32(self.k);
    }
}
impl PartialEq for TK {
    fn eq(&self, o: &TK) -> bool {
        self.check("eq");
        o.check("eq");
        tick(K_EQ, (self.k, self.id), (o.k, o.id));
        self.k == o.k
    }
}
impl Eq for TK {}
impl PartialEq for TV {
    fn eq(&self, o: &TV) -> bool {
        self.check("value-eq");
        o.check("value-eq");
        tick(K_VEQ, (u32::MAX, self.id), (u32::MAX, o.id));
        self.v == o.v
    }
}
impl Eq for TV {}

impl Serialize for TK {
    fn serialize<S: serde::Serializer>(&self, s: S) -> Result<S::Ok, S::Error> {
        self.check("serialize");
        s.serialize_u32(self.k)
    }
}
impl<'de> Deserialize<'de> for TK {
    fn deserialize<D: serde::Deserializer<'de>>(d: D) -> Result<TK, D::Error> {
        let k = u32::deserialize(d)?;
        Ok(TK::new(k))
    }
}
impl Serialize for TV {
    fn serialize<S: serde::Serializer>(&self, s: S) -> Result<S::Ok, S::Error> {
        self.check("serialize");
        s.serialize_u32(self.v)
    }
}
impl<'de> Deserialize<'de> for TV {
    fn deserialize<D: serde::Deserializer<'de>>(d: D) -> Result<TV, D::Error> {
        let v = u32::deserialize(d)?;
        Ok(TV::new(v))
    }
}

impl KeyT for TK {
    const TRACKED: bool = true;
    fn mk(k: u32) -> Self {
        TK::new(k)
    }
    fn k(&self) -> u32 {
        self.k
    }
    fn id(&self) -> u32 {
        self.id
    }
    fn check(&self, access: &str) {
        let _s = Suspend::new();
        if !ledger_is_live(self.id) {
            ledger_check_live(self.id, "key", access);
            return;
        }
        if **self.guard != self.k ^ KEY_MAGIC ^ self.id {
            ledger_error(format!("canary-broken key id={} in {}", self.id, access));
        }
    }
}
impl ValT for TV {
    fn mk(v: u32) -> Self {
        TV::new(v)
    }
    fn v(&self) -> u32 {
        self.check("read");
        self.v
    }
    fn set(&mut self, v: u32) {
        self.check("write");
        self.v = v;
    }
    fn id(&self) -> u32 {
        self.id
    }
    fn check(&self, access: &str) {
        let _s = Suspend::new();
        if !ledger_is_live(self.id) {
            ledger_check_live(self.id, "value", access);
            return;
        }
        if **self.guard != VAL_MAGIC ^ self.id {
            ledger_error(format!("canary-broken value id={} in {}", self.id, access));
        }
    }
}

pub struct FamT;
impl Fam for FamT {
    const NAME: &'static str = "T";
    type K = TK;
    type V = TV;
    qv_impl!(TK, TV);
}
