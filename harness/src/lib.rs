//! gv: property-based testing and fuzzing harness for jonhoo/griddle.

pub mod chains;
pub mod elems;
pub mod exec;
pub mod faults;
pub mod features;
pub mod fuzzing;
pub mod gen;
pub mod instr;
pub mod interp;
pub mod iters;
pub mod ops;
pub mod runner;
pub mod sets;
pub mod transcript;
pub mod zst;

#[global_allocator]
static GLOBAL: instr::Counting = instr::Counting;
