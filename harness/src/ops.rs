//! The case language: a case is a configuration plus a history of operations. Its JSON form is the
//! replay file.

use crate::elems::{HMode, VH};
use serde::{Deserialize, Serialize};

#[derive(Clone, Copy, Debug, PartialEq, Eq, Serialize, Deserialize)]
pub enum Family {
    P,
    T,
}

/// Run-time resolved key selector (indices are mapped monotonically onto the candidate list).
#[derive(Clone, Copy, Debug, PartialEq, Eq, Serialize, Deserialize)]
pub enum KeySel {
    /// a key never used before in this case
    Fresh,
    /// i-th (scaled) key currently in the model; falls back to Fresh when empty
    Existing(u16),
    /// a key the hook reports in the old table; falls back to Existing
    InOld(u16),
    /// a key the hook reports in the main table; falls back to Existing
    InMain(u16),
    /// a key of the universe, present or not
    Any(u32),
    /// a key that is absent (not necessarily never used)
    Absent(u32),
    /// the i-th element the move cursor will yield next (i.e. within or just beyond the group the
    /// cursor is in); falls back to InOld
    NextMoved(u8),
}

#[derive(Clone, Copy, Debug, PartialEq, Eq, Serialize, Deserialize)]
pub enum CapArg {
    Small(u8),
    /// capacity()-len() + d
    AroundFree(i8),
    /// len() + d
    AroundLen(i8),
    /// len + L + ceil(L/R) + d (the headroom boundary of shrink_to)
    AroundHeadroom(i8),
    Medium(u16),
    /// see `resolve_huge`
    Huge(u16),
}

#[derive(Clone, Copy, Debug, PartialEq, Eq, Serialize, Deserialize)]
pub enum Pred {
    All,
    None,
    /// pseudo-random subset: true iff splitmix(key ^ seed) & 1
    Mask(u32),
    OnlyOld,
    OnlyMain,
    ValueParity,
    /// true iff key % m == r
    KeyMod(u8, u8),
    /// true iff key < n (the keys steering adds lie above the universe)
    KeyBelow(u32),
}

#[derive(Clone, Copy, Debug, PartialEq, Eq, Serialize, Deserialize)]
pub enum RawHow {
    FromKey,
    FromKeyHashedNocheck,
    FromHash,
}

/// steps that map an entry to an entry
#[derive(Clone, Copy, Debug, PartialEq, Eq, Serialize, Deserialize)]
pub enum EStep {
    AndModify(u32),
    /// closure returns Some(v + d) / None
    AndReplace(Option<u32>),
    Key,
}

#[derive(Clone, Copy, Debug, PartialEq, Eq, Serialize, Deserialize)]
pub enum OStep {
    Key,
    Get,
    GetMut(u32),
    Insert(u32),
    /// raw only: get_key_value / get_key_value_mut / key_mut+insert_key with an equal key
    GetKeyValue,
    GetKeyValueMut(u32),
    InsertKey,
}

#[derive(Clone, Copy, Debug, PartialEq, Eq, Serialize, Deserialize)]
pub enum OEnd {
    Drop,
    Remove,
    RemoveEntry,
    IntoMut(u32),
    /// entry only
    ReplaceEntry(u32),
    /// entry only
    ReplaceKey,
    /// replace_entry_with(Some(v+d)/None) and then the given continuation
    ReplaceWith(Option<u32>, Tail),
    /// raw only
    IntoKey,
    IntoKeyValue(u32),
}

#[derive(Clone, Copy, Debug, PartialEq, Eq, Serialize, Deserialize)]
pub enum Tail {
    Drop,
    /// occupied: remove / vacant: insert(v)
    RemoveOrInsert(u32),
    /// occupied: into_mut write / vacant: insert(v) then write
    WriteOrInsert(u32),
    /// occupied: get / vacant: into_key (entry) or drop (raw)
    Peek,
}

#[derive(Clone, Copy, Debug, PartialEq, Eq, Serialize, Deserialize)]
pub enum VEnd {
    Drop,
    Key,
    IntoKey,
    /// insert(v), then write v+d through the returned reference if Some
    Insert(u32, Option<u32>),
    /// raw only
    InsertHashedNocheck(u32, Option<u32>),
    InsertWithHasher(u32, Option<u32>),
}

#[derive(Clone, Copy, Debug, PartialEq, Eq, Serialize, Deserialize)]
pub enum EEnd {
    Drop,
    /// Entry::insert / RawEntryMut::insert -> occupied handle
    Insert(u32, OStep, OEnd),
    OrInsert(u32, Option<u32>),
    OrInsertWith(u32, Option<u32>),
    /// entry only
    OrInsertWithKey(Option<u32>),
    /// entry only
    OrDefault(Option<u32>),
    Match(OStep, OEnd, VEnd),
}

#[derive(Clone, Debug, PartialEq, Eq, Serialize, Deserialize)]
pub struct Chain {
    pub steps: Vec<EStep>,
    pub end: EEnd,
}

#[derive(Clone, Copy, Debug, PartialEq, Eq, Serialize, Deserialize)]
pub enum IterKind {
    Iter,
    Keys,
    Values,
    IterMut,
    ValuesMut,
    RefIntoIter,
    MutIntoIter,
}

#[derive(Clone, Debug, PartialEq, Eq, Serialize, Deserialize)]
pub enum Op {
    Insert { s: u8, k: KeySel, v: u32 },
    InsertMany { s: u8, n: u32, v: u32 },
    Get { s: u8, k: KeySel },
    GetMut { s: u8, k: KeySel, w: Option<u32> },
    GetKeyValue { s: u8, k: KeySel },
    GetKeyValueMut { s: u8, k: KeySel, w: Option<u32> },
    ContainsKey { s: u8, k: KeySel },
    Index { s: u8, k: KeySel },
    Remove { s: u8, k: KeySel },
    RemoveEntry { s: u8, k: KeySel },
    RemoveMany { s: u8, n: u32, stride: u16 },
    Entry { s: u8, k: KeySel, chain: Chain },
    /// `probe_other`: if the key is absent, the raw lookup is made for ANOTHER absent key (by
    /// precomputed hash) and the key is then inserted through that vacant handle - a raw vacant
    /// handle is not bound to the key it was looked up with
    RawEntryMut { s: u8, k: KeySel, how: RawHow, chain: Chain, #[serde(default)] probe_other: bool },
    RawEntry { s: u8, k: KeySel, how: RawHow },
    Iterate { s: u8, kind: IterKind, clone_at: Option<u16>, extra: u8, write: Option<u32> },
    Drain { s: u8, take: Option<u16>, forget: bool },
    IntoIter { s: u8, take: Option<u16> },
    Retain { s: u8, pred: Pred, mutate: Option<u32> },
    DrainFilter { s: u8, pred: Pred, mutate: Option<u32>, take: Option<u16>, forget: bool },
    Clear { s: u8 },
    Reserve { s: u8, n: CapArg, follow: bool },
    TryReserve { s: u8, n: CapArg, follow: bool },
    ShrinkToFit { s: u8 },
    ShrinkTo { s: u8, m: CapArg },
    Extend { s: u8, items: Vec<(KeySel, u32)>, by_ref: bool },
    FromIter { s: u8, items: Vec<(KeySel, u32)> },
    WithCapacity { s: u8, n: CapArg, follow: bool, hasher: Option<(HMode, u64)> },
    CloneTo { dst: u8, src: u8 },
    CloneFrom { dst: u8, src: u8 },
    EqCheck,
    DebugCheck { s: u8 },
    // steering
    FillToCapacity { s: u8 },
    TriggerGrowth { s: u8 },
    Advance { s: u8, n: u8 },
    Churn { s: u8, remove_pct: u8 },
    ProbeHeadroom { s: u8 },
    /// removes every key that steering added (keys above the universe); removals move nothing
    RemoveFresh { s: u8 },
    /// removes every element with `remove` (tombstones stay behind in tables of >= 16 buckets)
    RemoveAll { s: u8 },
    /// removes every element that is still in the old table, one by one
    /// (how: 0 remove, 1 remove_entry, 2 occupied-entry remove, 3 raw-entry remove, 4 replace_entry_with(None))
    RemoveOld { s: u8, how: u8, keep: u8 },
    /// mid-resize: removes main-table elements until len + L + ceil(L/R) sits exactly on a
    /// table-capacity boundary (`over`: one above it, so that an off-by-one in the headroom picks the
    /// smaller table), then shrink_to_fit
    TightShrink { s: u8, #[serde(default)] over: bool },
    /// mid-resize: empties the old table with retain (so that it lingers, empty) and then makes the
    /// main table exactly full (TightShrink): the state in which the next key-adding call has to
    /// free the lingering table and start a new resize
    LingerFull { s: u8 },
    /// get() of every key either map holds, in both maps (C14)
    CrossGet,
    // feature checks that need a state
    ParCheck { s: u8, threads: u8, reps: u8 },
    SerdeCheck { s: u8 },
    /// operation on the zero-sized-element collections
    Z(crate::zst::ZOp),
    // HashSet operations (set slots are separate from the map slots)
    /// which: 0 insert 1 replace 2 remove 3 take 4 get 5 contains 6 get_or_insert
    /// 7 get_or_insert_owned 8 get_or_insert_with
    SetPoint { s: u8, k: KeySel, which: u8 },
    SetInsertMany { s: u8, n: u32 },
    SetRetain { s: u8, pred: Pred },
    SetDrainFilter { s: u8, pred: Pred, take: Option<u16>, forget: bool },
    /// which: 0 iter 1 drain 2 into_iter
    SetIter { s: u8, which: u8, clone_at: Option<u16>, take: Option<u16>, forget: bool },
    SetExtend { s: u8, items: Vec<KeySel>, by_ref: bool, from_iter: bool },
    /// which: 0 clear 1 reserve 2 shrink_to 3 shrink_to_fit 4 trigger growth 5 try_reserve
    SetMisc { s: u8, which: u8, arg: CapArg },
    SetClone { dst: u8, src: u8, from: bool },
    SetAlgebra,
    SetPar { threads: u8, reps: u8 },
    /// `empty`: before the in-place step, an EMPTY sequence is deserialised in place into the
    /// destination (which must be empty afterwards)
    SetSerde { s: u8, in_place: bool, #[serde(default)] empty: bool },
}

impl Op {
    pub fn name(&self) -> &'static str {
        match self {
            Op::Insert { .. } => "insert",
            Op::InsertMany { .. } => "insert_many",
            Op::Get { .. } => "get",
            Op::GetMut { .. } => "get_mut",
            Op::GetKeyValue { .. } => "get_key_value",
            Op::GetKeyValueMut { .. } => "get_key_value_mut",
            Op::ContainsKey { .. } => "contains_key",
            Op::Index { .. } => "index",
            Op::Remove { .. } => "remove",
            Op::RemoveEntry { .. } => "remove_entry",
            Op::RemoveMany { .. } => "remove_many",
            Op::Entry { .. } => "entry",
            Op::RawEntryMut { .. } => "raw_entry_mut",
            Op::RawEntry { .. } => "raw_entry",
            Op::Iterate { .. } => "iterate",
            Op::Drain { .. } => "drain",
            Op::IntoIter { .. } => "into_iter",
            Op::Retain { .. } => "retain",
            Op::DrainFilter { .. } => "drain_filter",
            Op::Clear { .. } => "clear",
            Op::Reserve { .. } => "reserve",
            Op::TryReserve { .. } => "try_reserve",
            Op::ShrinkToFit { .. } => "shrink_to_fit",
            Op::ShrinkTo { .. } => "shrink_to",
            Op::Extend { .. } => "extend",
            Op::FromIter { .. } => "from_iter",
            Op::WithCapacity { .. } => "with_capacity",
            Op::CloneTo { .. } => "clone",
            Op::CloneFrom { .. } => "clone_from",
            Op::EqCheck => "eq",
            Op::DebugCheck { .. } => "debug",
            Op::FillToCapacity { .. } => "fill_to_capacity",
            Op::TriggerGrowth { .. } => "trigger_growth",
            Op::Advance { .. } => "advance",
            Op::Churn { .. } => "churn",
            Op::ProbeHeadroom { .. } => "probe_headroom",
            Op::RemoveFresh { .. } => "remove_fresh",
            Op::CrossGet => "cross_get",
            Op::RemoveAll { .. } => "remove_all",
            Op::RemoveOld { .. } => "remove_old",
            Op::TightShrink { .. } => "tight_shrink",
            Op::LingerFull { .. } => "linger_full",
            Op::ParCheck { .. } => "par_check",
            Op::SerdeCheck { .. } => "serde_check",
            Op::SetPoint { which, .. } => match which % 9 {
                0 => "set_insert",
                1 => "set_replace",
                2 => "set_remove",
                3 => "set_take",
                4 => "set_get",
                5 => "set_contains",
                6 => "set_get_or_insert",
                7 => "set_get_or_insert_owned",
                _ => "set_get_or_insert_with",
            },
            Op::Z(_) => "zst",
            Op::SetInsertMany { .. } => "set_insert_many",
            Op::SetRetain { .. } => "set_retain",
            Op::SetDrainFilter { .. } => "set_drain_filter",
            Op::SetIter { which, .. } => match which % 3 {
                0 => "set_iter",
                1 => "set_drain",
                _ => "set_into_iter",
            },
            Op::SetExtend { from_iter, .. } => if *from_iter { "set_from_iter" } else { "set_extend" },
            Op::SetMisc { which, .. } => match which % 6 {
                0 => "set_clear",
                1 => "set_reserve",
                2 => "set_shrink_to",
                3 => "set_shrink_to_fit",
                5 => "set_try_reserve",
                _ => "set_trigger_growth",
            },
            Op::SetClone { from, .. } => if *from { "set_clone_from" } else { "set_clone" },
            Op::SetAlgebra => "set_algebra",
            Op::SetPar { .. } => "set_par",
            Op::SetSerde { .. } => "set_serde",
        }
    }
}

#[derive(Clone, Debug, PartialEq, Eq, Serialize, Deserialize)]
pub struct Case {
    pub family: Family,
    pub hashers: [VH; 2],
    pub init_cap: [u32; 2],
    /// keys are drawn from 0..universe (Fresh keys come from a counter above the universe)
    pub universe: u32,
    pub ops: Vec<Op>,
}

impl Case {
    pub fn hash64(&self) -> u64 {
        use std::hash::{Hash, Hasher};
        let s = serde_json::to_string(self).unwrap_or_default();
        let mut h = std::collections::hash_map::DefaultHasher::new();
        s.hash(&mut h);
        h.finish()
    }
    /// compact one-line rendering for evidence samples
    pub fn render(&self, max_ops: usize) -> String {
        let mut s = format!(
            "fam={:?} hashers=[{:?}/{:#x},{:?}/{:#x}] cap={:?} universe={} ops[{}]: ",
            self.family,
            self.hashers[0].mode,
            self.hashers[0].seed & 0xffff,
            self.hashers[1].mode,
            self.hashers[1].seed & 0xffff,
            self.init_cap,
            self.universe,
            self.ops.len()
        );
        for (i, op) in self.ops.iter().enumerate() {
            if i >= max_ops {
                s.push_str(" ...");
                break;
            }
            if i > 0 {
                s.push_str("; ");
            }
            let d = format!("{:?}", op);
            let d = if d.len() > 160 { format!("{}…", &d[..160]) } else { d };
            s.push_str(&d);
        }
        s
    }
}

/// `Huge` arguments: every value is >= 2^61, so hashbrown's bucket computation overflows before
/// any allocation is attempted, for every element type.
pub fn resolve_huge(i: u16) -> usize {
    let i = i as usize;
    match i % 6 {
        0 => usize::MAX - (i / 6) % 4097,
        1 => (isize::MAX as usize) - (i / 6) % 4097,
        2 => (isize::MAX as usize) + (i / 6) % 4097,
        3 => usize::MAX / 2 - (i / 6) % 64,
        4 => usize::MAX / 4 + (i / 6) % 64,
        _ => usize::MAX - (i / 6) % 40,
    }
}
