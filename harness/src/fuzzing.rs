//! Byte-level entry point for coverage-guided fuzzing (C05 thorough tier): a hand-written
//! decoder from bytes to a case, on top of `arbitrary::Unstructured`.

use crate::elems::{HMode, VH};
use crate::instr;
use crate::interp::Prop;
use crate::ops::*;
use crate::runner;
use crate::zst::ZOp;
use arbitrary::Unstructured;

type R<T> = arbitrary::Result<T>;

fn n(u: &mut Unstructured, max: u32) -> R<u32> {
    u.int_in_range(0..=max)
}
fn b(u: &mut Unstructured) -> R<bool> {
    Ok(u.int_in_range(0..=1u8)? == 1)
}
fn u16_(u: &mut Unstructured) -> R<u16> {
    u.arbitrary::<u16>()
}
fn optw(u: &mut Unstructured) -> R<Option<u32>> {
    Ok(if n(u, 2)? == 0 { None } else { Some(n(u, 999)?) })
}
fn take(u: &mut Unstructured) -> R<Option<u16>> {
    Ok(if n(u, 2)? == 0 { None } else { Some(u16_(u)?) })
}

fn keysel(u: &mut Unstructured) -> R<KeySel> {
    Ok(match n(u, 9)? {
        8 | 9 => KeySel::NextMoved(n(u, 19)? as u8),
        0 | 1 => KeySel::Fresh,
        2 => KeySel::Existing(u16_(u)?),
        3 | 4 => KeySel::InOld(u16_(u)?),
        5 => KeySel::InMain(u16_(u)?),
        6 => KeySel::Any(n(u, 4095)?),
        _ => KeySel::Absent(n(u, 4095)?),
    })
}

fn pred(u: &mut Unstructured) -> R<Pred> {
    Ok(match n(u, 7)? {
        0 => Pred::All,
        1 => Pred::None,
        2 => Pred::Mask(u.arbitrary::<u32>()?),
        3 | 4 => Pred::OnlyOld,
        5 => Pred::OnlyMain,
        6 => Pred::ValueParity,
        _ => Pred::KeyMod(2 + n(u, 3)? as u8, n(u, 5)? as u8),
    })
}

fn caparg(u: &mut Unstructured) -> R<CapArg> {
    Ok(match n(u, 4)? {
        0 => CapArg::Small(n(u, 39)? as u8),
        1 => CapArg::AroundFree(n(u, 6)? as i8 - 3),
        2 => CapArg::AroundLen(n(u, 6)? as i8 - 3),
        3 => CapArg::AroundHeadroom(n(u, 6)? as i8 - 3),
        _ => CapArg::Medium(n(u, 600)? as u16),
    })
}

fn tail(u: &mut Unstructured) -> R<Tail> {
    Ok(match n(u, 3)? {
        0 => Tail::Drop,
        1 => Tail::RemoveOrInsert(n(u, 999)?),
        2 => Tail::WriteOrInsert(n(u, 999)?),
        _ => Tail::Peek,
    })
}

fn ostep(u: &mut Unstructured) -> R<OStep> {
    Ok(match n(u, 6)? {
        0 => OStep::Key,
        1 => OStep::Get,
        2 => OStep::GetMut(1 + n(u, 48)?),
        3 => OStep::Insert(n(u, 999)?),
        4 => OStep::GetKeyValue,
        5 => OStep::GetKeyValueMut(1 + n(u, 48)?),
        _ => OStep::InsertKey,
    })
}

fn oend(u: &mut Unstructured) -> R<OEnd> {
    Ok(match n(u, 10)? {
        0 => OEnd::Drop,
        1 => OEnd::Remove,
        2 => OEnd::RemoveEntry,
        3 => OEnd::IntoMut(n(u, 999)?),
        4 => OEnd::ReplaceEntry(n(u, 999)?),
        5 => OEnd::ReplaceKey,
        6 | 7 => OEnd::ReplaceWith(None, tail(u)?),
        8 => OEnd::ReplaceWith(Some(1 + n(u, 48)?), tail(u)?),
        9 => OEnd::IntoKey,
        _ => OEnd::IntoKeyValue(n(u, 999)?),
    })
}

fn vend(u: &mut Unstructured) -> R<VEnd> {
    Ok(match n(u, 5)? {
        0 => VEnd::Drop,
        1 => VEnd::Key,
        2 => VEnd::IntoKey,
        3 => VEnd::Insert(n(u, 999)?, optw(u)?),
        4 => VEnd::InsertHashedNocheck(n(u, 999)?, optw(u)?),
        _ => VEnd::InsertWithHasher(n(u, 999)?, optw(u)?),
    })
}

fn chain(u: &mut Unstructured) -> R<Chain> {
    let mut steps = Vec::new();
    for _ in 0..n(u, 2)? {
        steps.push(match n(u, 4)? {
            0 => EStep::AndModify(1 + n(u, 48)?),
            1 => EStep::AndReplace(Some(1 + n(u, 48)?)),
            2 | 3 => EStep::AndReplace(None),
            _ => EStep::Key,
        });
    }
    let end = match n(u, 8)? {
        0 => EEnd::Drop,
        1 => EEnd::Insert(n(u, 999)?, ostep(u)?, oend(u)?),
        2 => EEnd::OrInsert(n(u, 999)?, optw(u)?),
        3 => EEnd::OrInsertWith(n(u, 999)?, optw(u)?),
        4 => EEnd::OrInsertWithKey(optw(u)?),
        5 => EEnd::OrDefault(optw(u)?),
        _ => EEnd::Match(ostep(u)?, oend(u)?, vend(u)?),
    };
    Ok(Chain { steps, end })
}

fn zop(u: &mut Unstructured) -> R<ZOp> {
    let t = |u: &mut Unstructured| -> R<Option<u8>> { Ok(if n(u, 1)? == 0 { None } else { Some(n(u, 255)? as u8) }) };
    Ok(match n(u, 32)? {
        31 => ZOp::Serde(b(u)?),
        32 => ZOp::Par(n(u, 255)? as u8),
        0 | 1 => ZOp::Insert,
        2 | 3 => ZOp::Dup(n(u, 255)? as u8),
        4 | 5 => ZOp::Remove,
        6 => ZOp::RemoveEntry,
        7 => ZOp::Get,
        8 | 9 => ZOp::Reserve(n(u, 199)? as u16),
        10 => ZOp::TryReserve(n(u, 199)? as u16),
        11 => ZOp::ShrinkToFit,
        12 => ZOp::ShrinkTo(n(u, 99)? as u16),
        13 => ZOp::Retain(n(u, 255)? as u8, n(u, 255)? as u8),
        14 => ZOp::DrainFilter(n(u, 255)? as u8, n(u, 255)? as u8, t(u)?, n(u, 3)? == 0),
        15 => ZOp::EntryReplace(b(u)?),
        16 => ZOp::RawReplace(b(u)?),
        17 => ZOp::EntryRemove,
        18 => ZOp::RawRemove,
        19 => ZOp::OrInsert,
        20 => ZOp::Iterate,
        21 => ZOp::Drain(t(u)?, n(u, 3)? == 0),
        22 => ZOp::IntoIter(t(u)?),
        23 => ZOp::CloneFrom,
        24 | 25 => ZOp::Trigger,
        26 => ZOp::SetInsert,
        27 => ZOp::SetRemove,
        28 => ZOp::SetReserve(n(u, 199)? as u16),
        29 => ZOp::SetRetain(b(u)?),
        _ => ZOp::CloneTo,
    })
}

fn op(u: &mut Unstructured) -> R<Op> {
    let s = if n(u, 3)? == 0 { 1u8 } else { 0u8 };
    Ok(match n(u, 44)? {
        0..=3 => Op::Insert { s, k: keysel(u)?, v: n(u, 999)? },
        4 => Op::InsertMany { s, n: 1 + n(u, 139)?, v: n(u, 999)? },
        5 => Op::Get { s, k: keysel(u)? },
        6 => Op::GetMut { s, k: keysel(u)?, w: optw(u)? },
        7 => Op::GetKeyValueMut { s, k: keysel(u)?, w: optw(u)? },
        8 | 9 => Op::Remove { s, k: keysel(u)? },
        10 => Op::RemoveEntry { s, k: keysel(u)? },
        11 => Op::RemoveMany { s, n: 1 + n(u, 139)?, stride: u16_(u)? },
        12..=15 => Op::Entry { s, k: keysel(u)?, chain: chain(u)? },
        16..=18 => Op::RawEntryMut { s, k: keysel(u)?, how: [RawHow::FromKey, RawHow::FromKeyHashedNocheck, RawHow::FromHash][n(u, 2)? as usize], chain: chain(u)?, probe_other: n(u, 5)? == 0 },
        19 => Op::Iterate { s, kind: [IterKind::Iter, IterKind::Keys, IterKind::Values, IterKind::RefIntoIter][n(u, 3)? as usize], clone_at: take(u)?, extra: n(u, 3)? as u8, write: None },
        20 => Op::Iterate { s, kind: [IterKind::IterMut, IterKind::ValuesMut, IterKind::MutIntoIter][n(u, 2)? as usize], clone_at: None, extra: n(u, 3)? as u8, write: optw(u)? },
        21 => Op::Drain { s, take: take(u)?, forget: n(u, 3)? == 0 },
        22 => Op::IntoIter { s, take: take(u)? },
        23 | 24 => Op::Retain { s, pred: pred(u)?, mutate: optw(u)? },
        25 | 26 => Op::DrainFilter { s, pred: pred(u)?, mutate: optw(u)?, take: take(u)?, forget: n(u, 3)? == 0 },
        27 => Op::Clear { s },
        28 => Op::Reserve { s, n: caparg(u)?, follow: b(u)? },
        29 => Op::TryReserve { s, n: caparg(u)?, follow: b(u)? },
        30 => Op::ShrinkToFit { s },
        31 => Op::ShrinkTo { s, m: caparg(u)? },
        32 => Op::CloneTo { dst: n(u, 1)? as u8, src: n(u, 1)? as u8 },
        33 => {
            let d = n(u, 1)? as u8;
            Op::CloneFrom { dst: d, src: 1 - d }
        }
        34..=36 => Op::TriggerGrowth { s },
        37 => Op::Advance { s, n: 1 + n(u, 4)? as u8 },
        38 => if n(u, 2)? == 0 { Op::LingerFull { s } } else { Op::RemoveOld { s, how: n(u, 4)? as u8, keep: n(u, 11)? as u8 } },
        39 => if n(u, 1)? == 0 { Op::RemoveAll { s } } else { Op::TightShrink { s, over: b(u)? } },
        40 => Op::SetPoint { s, k: keysel(u)?, which: n(u, 8)? as u8 },
        41 => Op::SetMisc { s, which: n(u, 5)? as u8, arg: caparg(u)? },
        42 => Op::SetRetain { s, pred: pred(u)? },
        43 => Op::SetDrainFilter { s, pred: pred(u)?, take: take(u)?, forget: n(u, 3)? == 0 },
        _ => Op::Z(zop(u)?),
    })
}

const CAPS: [u32; 8] = [0, 3, 7, 14, 15, 28, 29, 57];

/// bytes -> case
pub fn decode(data: &[u8]) -> Option<Case> {
    let mut u = Unstructured::new(data);
    let r = (|| -> R<Case> {
        let family = if n(&mut u, 1)? == 0 { Family::P } else { Family::T };
        let modes = [HMode::Good, HMode::Good, HMode::Identity, HMode::Low, HMode::Collide];
        let h0 = VH { mode: modes[n(&mut u, 4)? as usize], seed: u.arbitrary::<u16>()? as u64 };
        let h1 = VH { mode: modes[n(&mut u, 4)? as usize], seed: u.arbitrary::<u16>()? as u64 };
        let init_cap = [CAPS[n(&mut u, 7)? as usize], CAPS[n(&mut u, 7)? as usize]];
        let universe = [8u32, 64, 512, 4096][n(&mut u, 3)? as usize];
        let mut ops = Vec::new();
        // prelude: a map of some size, usually mid-resize
        let n0 = n(&mut u, 140)?;
        if n0 > 0 {
            ops.push(Op::InsertMany { s: 0, n: n0, v: 1 });
        }
        if n(&mut u, 4)? != 0 {
            ops.push(Op::TriggerGrowth { s: 0 });
        }
        while !u.is_empty() && ops.len() < 48 {
            ops.push(op(&mut u)?);
        }
        Ok(Case { family, hashers: [h0, h1], init_cap, universe, ops })
    })();
    r.ok()
}

pub fn one(data: &[u8]) {
    static HOOK: std::sync::Once = std::sync::Once::new();
    HOOK.call_once(instr::install_panic_hook);
    if data.len() < 16 {
        return;
    }
    let case = match decode(data) {
        Some(c) => c,
        None => return,
    };
    let out = runner::run_case(&case, false);
    if let Some(f) = out.fail {
        // failures owned by other properties return quietly: their own checks report them
        if f.has(Prop::C05) {
            if let Ok(dir) = std::env::var("GV_FUZZ_FAILDIR") {
                let _ = std::fs::write(format!("{}/fail-{:016x}.json", dir, case.hash64()), serde_json::json!({"case": case, "describe": f.describe(), "signature": f.signature()}).to_string());
            }
            instr::panic_quiet(false);
            panic!("C05 violation: {}", f.describe());
        }
    }
}
