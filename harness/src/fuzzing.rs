//! Byte-level entry point for coverage-guided fuzzing (C05 thorough tier).

use crate::gen;
use crate::instr;
use crate::interp::Prop;
use crate::ops::Case;
use crate::runner;
use proptest::strategy::{BoxedStrategy, Strategy, ValueTree};
use proptest::test_runner::{Config, RngAlgorithm, TestRng, TestRunner};
use std::cell::RefCell;

const TAIL: usize = 1 << 20;

thread_local! {
    static STRAT: RefCell<Option<BoxedStrategy<Case>>> = const { RefCell::new(None) };
}

/// bytes -> case: the bytes are the random stream of the proptest generators
pub fn decode(data: &[u8]) -> Option<Case> {
    STRAT.with(|s| {
        let mut s = s.borrow_mut();
        if s.is_none() {
            let mut p = gen::profile(Prop::C05, false);
            p.max_ops = 40;
            p.many_max = 140;
            *s = Some(gen::case_strategy(&p));
        }
        // the pass-through stream must never run dry (rejection sampling would spin on the
        // zero padding): append a pseudo-random tail derived from the input
        let mut stream = Vec::with_capacity(data.len() + TAIL);
        stream.extend_from_slice(data);
        let mut x = data.iter().fold(0xcbf2_9ce4_8422_2325u64, |h, b| (h ^ *b as u64).wrapping_mul(0x100_0000_01b3));
        while stream.len() < data.len() + TAIL {
            x = crate::elems::splitmix(x);
            stream.extend_from_slice(&x.to_le_bytes());
        }
        let rng = TestRng::from_seed(RngAlgorithm::PassThrough, &stream);
        let mut runner = TestRunner::new_with_rng(Config { failure_persistence: None, ..Config::default() }, rng);
        s.as_ref().unwrap().new_tree(&mut runner).ok().map(|t| t.current())
    })
}

pub fn one(data: &[u8]) {
    static HOOK: std::sync::Once = std::sync::Once::new();
    HOOK.call_once(instr::install_panic_hook);
    if data.len() < 16 {
        return;
    }
    let case = match decode(data) {
        Some(c) => c,
        None => return,
    };
    let out = runner::run_case(&case, false);
    if let Some(f) = out.fail {
        // failures owned by other properties return quietly: their own checks report them
        if f.has(Prop::C05) {
            if let Ok(dir) = std::env::var("GV_FUZZ_FAILDIR") {
                let _ = std::fs::write(format!("{}/fail-{:016x}.json", dir, case.hash64()), serde_json::json!({"case": case, "describe": f.describe(), "signature": f.signature()}).to_string());
            }
            instr::panic_quiet(false);
            panic!("C05 violation: {}", f.describe());
        }
    }
}
