#![no_main]
use libfuzzer_sys::fuzz_target;

// The bytes drive proptest's generators (pass-through RNG), so the fuzzer mutates structured
// histories; the whole interpreter with all in-process oracles runs inside the target.
fuzz_target!(|data: &[u8]| {
    gv::fuzzing::one(data);
});
