"""Per-property check flows used by ./check."""
import hashlib
import json
import os
import subprocess
import sys
import time

FLAVOURS = {
    # property: (quick flavours, thorough flavours)
    "C02": (["dbg"], ["dbg", "rel"]),
    "C04": (["dbg", "rel"], ["dbg", "rel"]),
    "C05": (["dbg", "asan"], ["dbg", "asan"]),
    # release too: hashbrown's debug assertions would stop a history before a leak can show
    "C06": (["dbg", "rel"], ["dbg", "rel"]),
    "C07": (["dbg"], ["dbg", "asan"]),
    "C10": (["dbg", "rel"], ["dbg", "rel"]),
}


# a worker killed by a signal (segfault, allocator abort, sanitizer report) while running a
# generated history through the safe API is memory corruption: a violation of these properties
# if the saved case reproduces the crash; for the other properties it is reported as inconclusive
CRASH_IS_VIOLATION = ("C05", "C06", "C07")


def flavours_for(prop, tier):
    q, t = FLAVOURS.get(prop, (["dbg"], ["dbg"]))
    return q if tier == "quick" else t


def violation_line(prop, path):
    print("VIOLATION property=%s replay=%s" % (prop, path), flush=True)


def run_check(d, prop, tier, seed, replay, t0):
    if prop == "C17":
        import c17
        return c17.run(d, tier, seed, replay, t0)
    flavours = flavours_for(prop, tier)
    bins = {fl: d.build(fl) for fl in flavours}
    known = d.known_findings(prop)
    known_sigs = [k["signature"] for k in known]
    asan_env = {"ASAN_OPTIONS": "detect_leaks=0:abort_on_error=1:allocator_may_return_null=1", "GV_NO_BIG": "1"}

    def env_for(fl):
        e = dict(d.ENV)
        if fl == "asan":
            e.update(asan_env)
        return e

    if replay:
        bad = False
        for fl in flavours:
            owns, info, crashed = d.replay_one(bins[fl], prop, replay, tier, env=env_for(fl))
            print("[%s] %s" % (fl, json.dumps(info)[:3000]))
            if owns or (crashed and prop in CRASH_IS_VIOLATION):
                bad = True
        if bad:
            violation_line(prop, replay)
            return 1
        return 0

    violations = []  # (replay path, description)
    inconclusive = []

    # 1. the seconds-long replay tier: saved cases first
    n_regress = 0
    for f in d.regress_files(prop):
        for fl in flavours:
            n_regress += 1
            owns, info, crashed = d.replay_one(bins[fl], prop, f, "quick", env=env_for(fl))
            sig = info.get("signature", "") if isinstance(info, dict) else ""
            if owns and sig in known_sigs:
                continue
            if owns or (crashed and prop in CRASH_IS_VIOLATION):
                violations.append((f, "[%s] saved case fails again: %s" % (fl, json.dumps(info)[:600])))
                break
            if crashed:
                inconclusive.append("replay of %s crashed in %s (rc %s)" % (f, fl, info.get("crash")))

    # 2. generated search
    cases_q, cases_t = d.CASES[prop]
    cases = cases_q if tier == "quick" else cases_t
    merged = None
    per_flavour = {}
    for fl in flavours:
        n = cases
        if fl == "asan":
            # ASan costs a factor of 3-5 per case
            n = max(20, cases // 3) if tier == "quick" else cases // 2
        if fl == "rel" and prop not in ("C10", "C04", "C06"):
            n = max(20, cases // 2)
        results = d.spawn_workers(bins[fl], prop, tier, seed, n, fl, known_sigs, extra_env=(asan_env if fl == "asan" else None), current=(fl == "asan" or prop in CRASH_IS_VIOLATION))
        agg = d.aggregate(results)
        per_flavour[fl] = {"evaluations": agg["evaluations"], "workers": len(results), "workers_without_result": len(agg["infra"])}
        for r in agg["infra"]:
            cur = os.path.join(d.OUT, "%s.%s.%d.current.json" % (prop, fl, r["i"]))
            errf = os.path.join(d.OUT, "%s.%s.%d.stderr" % (prop, fl, r["i"]))
            tail = ""
            try:
                with open(errf) as f:
                    tail = f.read()[-2500:]
            except Exception:
                pass
            hangf = os.path.join(d.OUT, "%s.%s.%d.json.hang" % (prop, fl, r["i"]))
            if r["rc"] == 3 and os.path.exists(hangf):
                try:
                    with open(hangf) as f:
                        hc = json.load(f)
                    hp = d.save_replay("hang-" + prop, hc)
                except Exception:
                    hp = hangf
                inconclusive.append("worker %d (%s): one case exceeded the per-case time limit (possible hang); case saved as %s" % (r["i"], fl, hp))
            elif r["rc"] == "timeout":
                inconclusive.append("worker %d (%s) hit the watchdog" % (r["i"], fl))
            elif prop in CRASH_IS_VIOLATION and os.path.exists(cur):
                # a crash (sanitizer report, segfault) while executing a generated case
                try:
                    with open(cur) as f:
                        case = json.load(f)
                except Exception:
                    inconclusive.append("worker %d (%s) crashed, no current case" % (r["i"], fl))
                    continue
                e = env_for(fl)

                def fails(c, _bin=bins[fl], _e=e):
                    p = os.path.join(d.OUT, "%s.ddmin.json" % prop)
                    with open(p, "w") as f:
                        json.dump(c, f)
                    owns, info, crashed = d.replay_one(_bin, prop, p, tier, env=_e, timeout=120)
                    return crashed or owns

                if fails(case):
                    small = d.ddmin_case(bins[fl], prop, case, e, fails) if "ops" in case else case
                    path = d.save_replay(prop, {"case": small, "crash_stderr": tail[-1500:], "flavour": fl} if "ops" in small else small)
                    violations.append((path, "[%s] worker crashed (rc %s): %s" % (fl, r["rc"], tail[-400:].replace("\n", " | "))))
                else:
                    inconclusive.append("worker %d (%s) crashed (rc %s) but its last case does not reproduce" % (r["i"], fl, r["rc"]))
            else:
                inconclusive.append("worker %d (%s) ended with rc %s: %s" % (r["i"], fl, r["rc"], tail[-300:].replace("\n", " | ")))
        for v in agg["violations"]:
            if "case" in v or "target" in v:
                path = d.save_replay(prop, v)
                violations.append((path, "[%s] %s" % (fl, v.get("describe", ""))))
            else:
                inconclusive.append("proptest aborted: %s" % json.dumps(v)[:300])
        if merged is None:
            merged = agg
        else:
            merged["evaluations"] += agg["evaluations"]
            merged["nontrivial"].update(agg["nontrivial"])
            merged["foreign"] += agg["foreign"]
            merged["foreign_examples"] = (merged["foreign_examples"] + agg["foreign_examples"])[:6]
            merged["known_hits"].update(agg["known_hits"])
            if agg["stats"]:
                merged["stats"] = agg["stats"] if merged["stats"] is None else d.merge_stats(merged["stats"], agg["stats"])
            if not merged["samples"]:
                merged["samples"] = agg["samples"]

    extra_cov = {}
    if prop == "C05" and tier == "thorough":
        import c05extra
        fv, finc, fcov = c05extra.run(d, seed, t0)
        violations += fv
        inconclusive += finc
        extra_cov.update(fcov)

    samples = list(merged["samples"])
    if merged["first_nontrivial"]:
        samples.append({"first_non_trivial_case": merged["first_nontrivial"]})
    cov = {
        "evaluations": merged["evaluations"],
        "distinct_nontrivial": len(merged["nontrivial"]),
        "rule": d.RULES[prop],
        "samples": samples,
        "per_build_flavour": per_flavour,
        "saved_cases_replayed": n_regress,
        "distribution": merged["stats"],
        "foreign_failures": merged["foreign"],
        "foreign_failure_examples": merged["foreign_examples"],
        "excluded_by_known_finding": (merged["stats"] or {}).get("excluded_by_known_finding", 0),
        "known_findings_hit": sorted(merged["known_hits"]),
        "inconclusive": inconclusive,
    }
    cov.update(extra_cov)
    # de-duplicate violations by description
    seen = set()
    uniq = []
    for p, desc in violations:
        key = desc.split(" op#")[0] + desc.split("(")[-1]
        if key in seen:
            continue
        seen.add(key)
        uniq.append((p, desc))
    d.write_evidence(prop, tier, seed, t0, cov, len(uniq))
    for k in known:
        print("KNOWN-FINDING: property=%s %s" % (prop, k.get("description", k.get("signature"))))
    for p, desc in uniq:
        print(desc[:1500])
        violation_line(prop, p)
    if uniq:
        return 1
    if inconclusive:
        for m in inconclusive:
            d.log("INCONCLUSIVE:", m)
        return 2
    if merged["foreign"]:
        d.log("note: %d case(s) ended in a failure owned by another property (see evidence.foreign_failure_examples)" % merged["foreign"])
    print("%s %s: held on %d generated cases (%d distinct non-trivial), %.1fs" % (prop, tier, merged["evaluations"], len(merged["nontrivial"]), time.time() - t0))
    return 0
