"""C17: the same generated histories through the debug-assertion build and the optimised build."""
import hashlib
import json
import os
import subprocess
import time


def transcript(binp, cases_path, out_path, env, tier, start=0):
    """runs the transcript subcommand, restarting after a crash; returns list of crash case indices"""
    crashes = []
    n_lines = sum(1 for _ in open(cases_path))
    frm = start
    if os.path.exists(out_path):
        os.remove(out_path)
    while frm < n_lines:
        try:
            r = subprocess.run([binp, "transcript", "--cases", cases_path, "--out", out_path, "--from", str(frm), "--tier", tier], env=env, stdout=subprocess.DEVNULL, stderr=subprocess.PIPE, text=True, timeout=3600)
        except subprocess.TimeoutExpired:
            return crashes, "timeout"
        if r.returncode == 0:
            break
        # find the case that was running
        last = None
        with open(out_path) as f:
            for line in f:
                if line.startswith("BEGIN "):
                    last = int(line.split()[1])
        if last is None:
            return crashes, "crash before any case (rc %s): %s" % (r.returncode, r.stderr[-300:])
        with open(out_path, "a") as f:
            f.write("%s rc=%s\nEND %d nt=1\n" % ("HANG" if r.returncode == 3 else "CRASH", r.returncode, last))
        crashes.append(last)
        frm = last + 1
    return crashes, None


def split(path):
    out = {}
    cur = None
    buf = []
    nt = {}
    with open(path) as f:
        for line in f:
            if line.startswith("BEGIN "):
                cur = int(line.split()[1])
                buf = []
            elif line.startswith("END "):
                parts = line.split()
                out[int(parts[1])] = buf
                nt[int(parts[1])] = parts[2] == "nt=1"
                cur = None
            elif cur is not None:
                buf.append(line.rstrip("\n"))
    return out, nt


def first_diff(a, b):
    for i in range(max(len(a), len(b))):
        x = a[i] if i < len(a) else "<missing>"
        y = b[i] if i < len(b) else "<missing>"
        if x != y:
            return i, x, y
    return None


def compare_case(d, bins, case, tier):
    """True iff the two builds disagree on this single case"""
    p = os.path.join(d.OUT, "C17.single.cases")
    with open(p, "w") as f:
        f.write(json.dumps(case) + "\n")
    outs = {}
    for fl in ("dbg", "rel"):
        o = os.path.join(d.OUT, "C17.single.%s.txt" % fl)
        transcript(bins[fl], p, o, d.ENV, tier)
        outs[fl], _ = split(o)
    return outs["dbg"].get(0) != outs["rel"].get(0), outs


def run(d, tier, seed, replay, t0):
    bins = {fl: d.build(fl) for fl in ("dbg", "rel")}
    if replay:
        with open(replay) as f:
            v = json.load(f)
        case = v.get("case", v)
        differ, outs = compare_case(d, bins, case, tier)
        if differ:
            fd = first_diff(outs["dbg"].get(0, []), outs["rel"].get(0, []))
            print("transcripts differ at line %s:\n  debug:   %s\n  release: %s" % fd)
            print("VIOLATION property=C17 replay=%s" % replay)
            return 1
        print("transcripts identical (%d lines)" % len(outs["dbg"].get(0, [])))
        return 0

    violations = []
    inconclusive = []
    # saved cases first
    n_regress = 0
    for f in d.regress_files("C17"):
        n_regress += 1
        with open(f) as fh:
            v = json.load(fh)
        differ, outs = compare_case(d, bins, v.get("case", v), tier)
        if differ:
            violations.append((f, "saved case: debug and release transcripts differ"))

    cases_q, cases_t = d.CASES["C17"]
    n = cases_q if tier == "quick" else cases_t
    procs = []
    for i in range(d.NPROC):
        cp = os.path.join(d.OUT, "C17.%d.cases" % i)
        procs.append((cp, subprocess.Popen([bins["dbg"], "gen", "--prop", "C17", "--tier", tier, "--seed", str(d.derive_seed(seed, "C17", tier, i)), "--cases", str(n), "--out", cp], env=d.ENV)))
    for cp, p in procs:
        if p.wait() != 0:
            inconclusive.append("case generation failed for %s" % cp)
    # run both builds over every chunk, in parallel
    from concurrent.futures import ThreadPoolExecutor

    def job(args):
        i, fl = args
        cp = os.path.join(d.OUT, "C17.%d.cases" % i)
        op = os.path.join(d.OUT, "C17.%d.%s.txt" % (i, fl))
        return (i, fl, transcript(bins[fl], cp, op, d.ENV, tier))

    with ThreadPoolExecutor(max_workers=d.NPROC) as ex:
        res = list(ex.map(job, [(i, fl) for i in range(d.NPROC) for fl in ("dbg", "rel")]))
    for i, fl, (crashes, err) in res:
        if err:
            inconclusive.append("transcript %d/%s: %s" % (i, fl, err))
    evaluations = 0
    nontrivial = set()
    samples = []
    crashed_cases = 0
    for i in range(d.NPROC):
        cp = os.path.join(d.OUT, "C17.%d.cases" % i)
        with open(cp) as f:
            cases = [line for line in f if line.strip()]
        a, nta = split(os.path.join(d.OUT, "C17.%d.dbg.txt" % i))
        b, ntb = split(os.path.join(d.OUT, "C17.%d.rel.txt" % i))
        for idx, line in enumerate(cases):
            if idx not in a or idx not in b:
                continue
            evaluations += 1
            if nta.get(idx) or ntb.get(idx):
                nontrivial.add(hashlib.sha256(line.encode()).hexdigest()[:16])
            if len(samples) < 3 and a[idx]:
                samples.append({"case": line[:600], "transcript_head": a[idx][:3], "transcript_lines": len(a[idx])})
            if any(l.startswith("HANG") for l in a[idx] + b[idx]):
                inconclusive.append("case %d of chunk %d exceeded the per-case time limit in one build (possible hang)" % (idx, i))
                continue
            if a[idx] != b[idx]:
                if len(violations) >= 3:
                    continue
                case = json.loads(line)
                fd = first_diff(a[idx], b[idx])

                def fails(c):
                    differ, _ = compare_case(d, bins, c, tier)
                    return differ

                small = d.ddmin_case(None, "C17", case, d.ENV, fails, budget=60) if fails(case) else case
                differ, outs = compare_case(d, bins, small, tier)
                fd2 = first_diff(outs["dbg"].get(0, []), outs["rel"].get(0, [])) or fd
                path = d.save_replay("C17", {"case": small, "first_difference": {"line": fd2[0], "debug": fd2[1], "release": fd2[2]}})
                violations.append((path, "debug and release transcripts differ at line %d: debug `%s` / release `%s`" % fd2))
    cov = {
        "evaluations": evaluations,
        "distinct_nontrivial": len(nontrivial),
        "rule": d.RULES["C17"],
        "samples": samples,
        "saved_cases_replayed": n_regress,
        "inconclusive": inconclusive,
    }
    seen = set()
    uniq = []
    for p, desc in violations:
        key = desc.split("debug `")[-1][:80]
        if key in seen:
            continue
        seen.add(key)
        uniq.append((p, desc))
    d.write_evidence("C17", tier, seed, t0, cov, len(uniq), ["two profiles of one toolchain on one target"])
    for k in d.known_findings("C17"):
        print("KNOWN-FINDING: property=C17 %s" % k.get("description", k.get("signature")))
    for p, desc in uniq:
        print(desc[:1200])
        print("VIOLATION property=C17 replay=%s" % p)
    if uniq:
        return 1
    if inconclusive:
        for m in inconclusive[:10]:
            d.log("INCONCLUSIVE:", m)
        return 2
    print("C17 %s: %d cases gave identical transcripts in both builds (%d distinct non-trivial), %.1fs" % (tier, evaluations, len(nontrivial), time.time() - t0))
    return 0
