#!/usr/bin/env python3
"""Prints the sensitivity table (seeded change x checks) from seeded/*/meta.json as markdown."""
import json, os
ROOT = "/verif/seeded"
rows = []
for d in sorted(os.listdir(ROOT)):
    mp = os.path.join(ROOT, d, "meta.json")
    if not os.path.exists(mp):
        continue
    m = json.load(open(mp))
    res = m.get("results", {})
    caught = sorted(p for p, v in res.items() if v["rc"] == 1)
    inconcl = sorted(p for p, v in res.items() if v["rc"] not in (0, 1))
    target = m.get("breaks", [])
    missed = [p for p in target if p in res and res[p]["rc"] == 0]
    rows.append((d, ",".join(target) or "(equivalent)", ", ".join(caught) or "-", ", ".join(missed) or "", ", ".join(inconcl), m.get("needs_to_manifest", "")[:140].replace("|", "/")))
print("| seeded change | meant to break | quick checks that report it | target checks that stay green | inconclusive | needs, to manifest |")
print("|---|---|---|---|---|---|")
for r in rows:
    print("| %s | %s | %s | %s | %s | %s |" % r)
