#!/usr/bin/env python3
"""Runs every quick check on the unchanged tree (optionally with VERIF_SEED=<n>) and reports exit
status, time, violations and foreign failures (all of which must be 0 / absent there).
usage: tools/selfcheck.py [seed] [C01 C02 ...]"""
import json, os, subprocess, sys, time
seed = sys.argv[1] if len(sys.argv) > 1 and sys.argv[1].isdigit() else "1"
props = [a for a in sys.argv[1:] if a.startswith("C")] or ["C%02d" % i for i in range(1, 18)]
bad = 0
for p in props:
    t0 = time.time()
    r = subprocess.run(["./check", p, "--tier", "quick"], cwd="/verif", env=dict(os.environ, VERIF_SEED=seed), capture_output=True, text=True)
    ev = json.load(open("/verif/evidence/%s.json" % p))
    ff = ev["coverage"].get("foreign_failures", 0)
    ok = r.returncode == 0 and "VIOLATION" not in r.stdout and ff == 0
    bad += not ok
    print("%s seed=%s rc=%d %.0fs evaluations=%s nontrivial=%s foreign=%s %s" % (p, seed, r.returncode, time.time() - t0, ev["coverage"].get("evaluations"), ev["coverage"].get("distinct_nontrivial"), ff, "" if ok else "<<<<<< ATTENTION"), flush=True)
    if not ok:
        print(r.stdout[-600:], r.stderr[-600:])
sys.exit(1 if bad else 0)
