#!/usr/bin/env python3
"""Runs the quick checks named in each seeded change's meta.json ("breaks", or all with --all)
against that change and records the outcome in meta.json["results"].
usage: tools/run_seeded.py [--jobs N] [--all] [--only id,id] [--props C01,C02] [--prefix n]
(--prefix: instance names are <prefix>1..<prefix>N, default m; use another one for a second concurrent run)"""
import json, os, subprocess, sys, time
from concurrent.futures import ThreadPoolExecutor
ROOT = "/verif"
args = sys.argv[1:]
def opt(name, default=None):
    if name in args:
        return args[args.index(name) + 1]
    return default
jobs = int(opt("--jobs", "3"))
only = opt("--only")
props_override = opt("--props")
ALL = ["C%02d" % i for i in range(1, 18)]
ids = sorted(d for d in os.listdir(os.path.join(ROOT, "seeded")) if os.path.exists(os.path.join(ROOT, "seeded", d, "patch.diff")))
if only:
    ids = [i for i in ids if i in only.split(",")]
import queue
instq = queue.Queue()
for i in range(jobs):
    instq.put("%s%d" % (opt("--prefix", "m"), i + 1))
def work(sid):
    d = os.path.join(ROOT, "seeded", sid)
    meta = json.load(open(os.path.join(d, "meta.json")))
    props = props_override.split(",") if props_override else (ALL if "--all" in args else (meta.get("breaks") or []) + meta.get("also_run", []))
    if not props:
        props = ["C01", "C03", "C05"]
    inst = instq.get()
    t0 = time.time()
    try:
        r = subprocess.run([os.path.join(ROOT, "tools", "mutant.sh"), inst, os.path.join(d, "patch.diff")] + props, capture_output=True, text=True)
    finally:
        instq.put(inst)
    res = meta.get("results", {})
    base = None
    for line in r.stdout.splitlines():
        if line.startswith("baseline:"):
            base = line
        parts = line.split()
        if parts and parts[0] in ALL and len(parts) > 1 and parts[1].startswith("rc="):
            res[parts[0]] = {"rc": int(parts[1][3:]), "detail": " ".join(parts[2:])[:300]}
    meta["results"] = res
    meta["baseline_with_change"] = base
    json.dump(meta, open(os.path.join(d, "meta.json"), "w"), indent=1)
    caught = [p for p, v in res.items() if v["rc"] == 1]
    print("%-40s %s | caught by %s | others %s (%.0fs)" % (sid, base, caught, {p: v["rc"] for p, v in res.items() if v["rc"] != 1}, time.time() - t0), flush=True)
    if "DOES NOT APPLY" in r.stdout or "BUILD FAILED" in r.stdout:
        print("   ", r.stdout[-400:])
with ThreadPoolExecutor(max_workers=jobs) as ex:
    list(ex.map(work, ids))
