#!/bin/bash
# usage: tools/trymut.sh <patch> <PROP> [seeds] [cases]   (debug aid: builds instance m9 against the patched tree and runs single workers)
WT=/tmp/mutant-m9; git -C /repo worktree remove --force $WT >/dev/null 2>&1
git -C /repo worktree add -q $WT HEAD && git -C $WT apply "$(readlink -f "$1")" || exit 2
(cd /verif && VERIF_INSTANCE=m9 VERIF_REPO=$WT ./check --build dbg | tail -1)
BIN=/verif/work-m9/target/dbg/debug/gv /verif/work/try.sh $2 "${3:-1 2 3}" ${4:-1000} 2>&1 | cut -c1-1200
git -C /repo worktree remove --force $WT
