#!/usr/bin/env python3
import subprocess
p = "/verif/DESIGN.md"
s = open(p).read()
t = subprocess.run(["python3", "/verif/tools/matrix.py"], capture_output=True, text=True).stdout
a = s.index("<!-- MATRIX-BEGIN -->") + len("<!-- MATRIX-BEGIN -->")
b = s.index("<!-- MATRIX-END -->")
s = s[:a] + "\n" + t + s[b:]
open(p, "w").write(s)
print("updated")
