#!/usr/bin/env python3
"""usage: tools/setmeta.py <seeded-id> <needs_to_manifest text> [--breaks C01,C05] [--origin text]"""
import json, sys
sid, needs = sys.argv[1], sys.argv[2]
p = "/verif/seeded/%s/meta.json" % sid
m = json.load(open(p))
m["needs_to_manifest"] = needs
if "--breaks" in sys.argv:
    m["breaks"] = sys.argv[sys.argv.index("--breaks") + 1].split(",")
if "--origin" in sys.argv:
    m["origin"] = sys.argv[sys.argv.index("--origin") + 1]
json.dump(m, open(p, "w"), indent=1)
