#!/usr/bin/env python3
"""Generates the hand-written seeded changes (DESIGN.md section 5) as patch files under
/verif/seeded/own-<name>/ from textual replacements on /repo HEAD (in a scratch worktree)."""
import json, os, subprocess, sys, shutil
WT = "/tmp/mkmutants-wt"
M = []
def m(name, file, old, new, breaks, needs):
    M.append(dict(name=name, file=file, old=old, new=new, breaks=breaks, needs=needs))

RAW = "src/raw/mod.rs"
MAP = "src/map.rs"
SET = "src/set.rs"
m("erase-no-reflect", RAW,
  "            lo.removing(&item.bucket.clone(), |table| table.erase(item.bucket));",
  "            if lo.table.buckets() >= 1024 {\n                lo.table.erase(item.bucket);\n            } else {\n                lo.removing(&item.bucket.clone(), |table| table.erase(item.bucket));\n            }",
  ["C05"], "retain removing an element that still lives in an old table of >= 1024 buckets and lies ahead of the move cursor, then further inserts")
m("find-ignores-old", RAW,
  "        if let Some(OldTable { ref table, .. }) = self.leftovers {\n            table.find(hash, eq).map(|bucket| Bucket {",
  "        if let Some(OldTable { ref table, .. }) = self.leftovers.as_ref().filter(|lo| lo.table.len() > 1 || lo.table.buckets() < 4096) {\n            table.find(hash, eq).map(|bucket| Bucket {",
  ["C01"], "a lookup of the very last element left in an old table of >= 4096 buckets")
m("len-uses-cursor", RAW,
  "        self.table.len() + self.leftovers.as_ref().map_or(0, |t| t.table.len())",
  "        self.table.len() + self.leftovers.as_ref().map_or(0, |t| t.table.len().min(t.table.buckets() - 1))",
  [], "equivalent mutant (control): min with buckets-1 never binds")
m("clear-keeps-old", RAW,
  "        let _ = self.leftovers.take();\n        self.table.clear();",
  "        if self.table.len() != 0 {\n            let _ = self.leftovers.take();\n        }\n        self.table.clear();",
  ["C01", "C03"], "clear() while every element is still in the old table (growth started by reserve, nothing moved yet)")
m("carry-moves-2r", RAW,
  "            for _ in 0..R {\n                // It is safe to continue to access this iterator because:\n                //  - we have not de-allocated the table it points into\n                //  - we have not grown or shrunk the table it points into\n                //\n                // NOTE: Calling next here could be expensive, as the iter needs to search for the\n                // next non-empty bucket. as the map grows in size, that search time will increase\n                // linearly.\n                if let Some(e) = lo.items.next() {\n                    // We need to remove the item in this bucket from the old map\n                    // to the resized map, without shrinking the old map.\n                    let (value, _) = unsafe { lo.table.remove(e) };\n                    let hash = hasher(&value);\n                    // SAFETY",
  "            for _ in 0..(if lo.table.len() > 4096 { 2 * R } else { R }) {\n                // It is safe to continue to access this iterator because:\n                //  - we have not de-allocated the table it points into\n                //  - we have not grown or shrunk the table it points into\n                //\n                // NOTE: Calling next here could be expensive, as the iter needs to search for the\n                // next non-empty bucket. as the map grows in size, that search time will increase\n                // linearly.\n                if let Some(e) = lo.items.next() {\n                    // We need to remove the item in this bucket from the old map\n                    // to the resized map, without shrinking the old map.\n                    let (value, _) = unsafe { lo.table.remove(e) };\n                    let hash = hasher(&value);\n                    // SAFETY",
  ["C02", "C03"], "a resize of a map with more than 4096 elements in the old table")
m("shrink-floor-div", RAW,
  "            need += (lo.table.len() + R - 1) / R;",
  "            need += if lo.table.len() > 40 { lo.table.len() / R } else { (lo.table.len() + R - 1) / R };",
  ["C04"], "shrink_to with a boundary argument while more than 40 elements wait in the old table and L is not a multiple of R, then filling to capacity")
m("overwrite-old-no-carry", MAP,
  "            if item.will_move() {\n                debug_assert!(self.table.is_split());\n                self.table\n                    .carry(make_hasher::<K, _, V, S>(&self.hash_builder));\n            }",
  "            if item.will_move() {\n                debug_assert!(self.table.is_split());\n            }",
  ["C03"], "insert() overwriting the value of an element that is still in the old table")
m("size-hint-ignores-old", RAW,
  "        let (mut lo, mut hi) = self.table.size_hint();\n        if let Some(ref left) = self.leftovers {\n            let (lo2, hi2) = left.size_hint();\n            lo += lo2;\n            if let (Some(ref mut hi), Some(hi2)) = (&mut hi, hi2) {\n                *hi += hi2;\n            }\n        }\n        (lo, hi)\n    }\n}\n\nimpl<T> ExactSizeIterator for RawIter<T> {}",
  "        let (mut lo, mut hi) = self.table.size_hint();\n        if let Some(ref left) = self.leftovers {\n            let (lo2, hi2) = left.size_hint();\n            lo += lo2;\n            if let (Some(ref mut hi), Some(hi2)) = (&mut hi, hi2) {\n                *hi += hi2.min(lo2.saturating_sub(lo2 / 64));\n            }\n        }\n        (lo, hi)\n    }\n}\n\nimpl<T> ExactSizeIterator for RawIter<T> {}",
  ["C08"], "an iterator over a map with at least 64 elements still in the old table: upper bound of size_hint too small")
m("clone-from-keeps-hasher", MAP,
  "        self.table\n            .clone_from_with_hasher(&source.table, make_hasher::<K, _, V, S>(&hash_builder));\n        self.hash_builder = hash_builder;",
  "        self.table\n            .clone_from_with_hasher(&source.table, make_hasher::<K, _, V, S>(&hash_builder));\n        if self.table.is_split() {\n            self.hash_builder = hash_builder;\n        }",
  ["C11"], "clone_from between maps whose hashers have different state (the destination is never split afterwards, so the hasher is never adopted)")
m("remove-never-frees", RAW,
  "            if lo.table.len() == 0 {\n                let _ = self.leftovers.take();\n            }\n\n            v",
  "            v",
  ["C03"], "removing the last element of the old table with remove()")
m("reserve-skips-carry-all", RAW,
  "            self.carry_all(hasher);\n            self.grow(additional);\n        } else {",
  "            if self.leftovers.as_ref().map_or(false, |lo| lo.table.len() > 0) {\n                self.carry_all(hasher);\n            } else {\n                let _ = self.leftovers.take();\n            }\n            self.grow(additional);\n        } else {",
  [], "equivalent mutant (control): an empty old table is dropped instead of carried")
m("partial-eq-no-len", MAP,
  "        if self.len() != other.len() {\n            return false;\n        }\n\n        self.iter()\n            .all(|(key, value)| other.get(key).map_or(false, |v| *value == *v))",
  "        if self.len() > other.len() {\n            return false;\n        }\n\n        self.iter()\n            .all(|(key, value)| other.get(key).map_or(false, |v| *value == *v))",
  ["C14"], "a == b where a's contents are a strict subset of b's")
m("retain-inverted-old", MAP,
  "                if !f(key, value) {\n                    self.table.erase(item);\n                }",
  "                let keep = f(key, value);\n                if !keep && !(item.will_move() && self.table.len() > 200) {\n                    self.table.erase(item);\n                }",
  ["C09"], "retain on a map of more than 200 elements rejecting an element that is still in the old table (map of more than 200 elements)")
m("drain-filter-drop-stops", MAP,
  "        while let Some(item) = self.next() {\n            let guard = ConsumeAllOnDrop(self);\n            drop(item);\n            mem::forget(guard);\n        }",
  "        let mut budget = 100;\n        while let Some(item) = self.next() {\n            let guard = ConsumeAllOnDrop(self);\n            drop(item);\n            mem::forget(guard);\n            budget -= 1;\n            if budget == 0 {\n                break;\n            }\n        }",
  ["C09"], "dropping a drain_filter while more than 100 matching elements have not been yielded")
m("insert-forgets-displaced", MAP,
  "            let v = Some(mem::replace(unsafe { &mut item.as_mut().1 }, v));\n            if item.will_move() {",
  "            let v = Some(mem::replace(unsafe { &mut item.as_mut().1 }, v));\n            if item.will_move() && self.table.len() > 2_000 {\n                mem::forget(v);\n                return None;\n            }\n            if item.will_move() {",
  ["C01", "C06"], "insert() overwriting an old-table element in a map of more than 2000 elements")
m("f1-reflect-insert-variant", RAW,
  "            let before = lo.items.clone();\n            let kept = lo.removing(&bucket.bucket.clone(), |table| {\n                table.replace_bucket_with(bucket.bucket, f)\n            });\n            if kept {\n                lo.items = before;\n            }\n            kept",
  "            let b = bucket.bucket.clone();\n            let kept = lo.removing(&bucket.bucket.clone(), |table| {\n                table.replace_bucket_with(bucket.bucket, f)\n            });\n            if kept {\n                lo.items.reflect_insert(&b);\n            }\n            kept",
  ["C01", "C05", "C06"], "replace_entry_with(Some) on an old-table element that is the last not-yet-yielded element of the cursor's current group")
m("f2-reverted", RAW,
  "            if self.leftovers.as_ref().map_or(false, |lo| lo.table.len() == 0) {\n                // `erase` and `replace_bucket_with` can empty the old table without freeing it\n                // (only `remove` and `carry` do that), so it may still be around even though\n                // there is nothing left to move. It is not in the way of another resize.\n                let _ = self.leftovers.take();\n            }\n",
  "",
  ["C01", "C04"], "retain empties the old table, shrink_to_fit, insert (D1)")
m("f3-debug-only", RAW,
  "            None if fallible => return Err(TryReserveError::CapacityOverflow),\n            None => panic!(\"Hash table capacity overflow\"),",
  "            None if fallible && cfg!(debug_assertions) => return Err(TryReserveError::CapacityOverflow),\n            None if fallible => raw::RawTable::try_with_capacity(need.wrapping_add(inserts).wrapping_add(add))?,\n            None => panic!(\"Hash table capacity overflow\"),",
  ["C10", "C17"], "try_reserve with an argument within a few elements of usize::MAX, release build only")
m("f4-reverted", RAW,
  "        self.table.clone_from(&source.table);",
  "        self.table.clone_from_with_hasher(&source.table, &hasher);",
  ["C11", "C04", "C17"], "clone_from into a destination emptied by remove (D6)")
m("f5-reverted-erase", RAW,
  "        if mem::size_of::<T>() == 0 {\n            // `reflect_remove`",
  "        if mem::size_of::<T>() == 0 && self.table.buckets() > 4 {\n            // `reflect_remove`",
  ["C05", "C01"], "zero-sized elements: removal from an old table of 4 buckets (D2 for the smallest table)")
m("reserve-ignores-old-inplace", RAW,
  "        let need = self\n            .leftovers\n            .as_ref()\n            .map_or(0, |t| t.table.len())\n            .saturating_add(additional);\n        if self.table.capacity() - self.table.len() > need {\n            // We can accommodate the additional items without resizing, so all is well.",
  "        let need = self\n            .leftovers\n            .as_ref()\n            .map_or(0, |t| t.table.len() - t.table.len() / 16)\n            .saturating_add(additional);\n        if self.table.capacity() - self.table.len() > need {\n            // We can accommodate the additional items without resizing, so all is well.",
  ["C10", "C04"], "reserve(n) mid-resize with n just below the free space left after accounting for the old table (L >= 16)")
m("union-wrong-side", SET,
  "        let (smaller, larger) = if self.len() >= other.len() {\n            (self, other)\n        } else {\n            (other, self)\n        };\n        Union {\n            iter: larger.iter().chain(smaller.difference(larger)),",
  "        let (smaller, larger) = if self.len() >= other.len() {\n            (self, other)\n        } else {\n            (other, self)\n        };\n        Union {\n            iter: larger.iter().chain(if larger.len() > 40 { smaller.difference(smaller) } else { smaller.difference(larger) }),",
  ["C13"], "union where the larger set has more than 40 elements and the smaller one has elements the larger lacks")
m("vacant-insert-wrong-bucket", RAW,
  "        // SAFETY: unknown requirements, but mirrored to caller\n        let bucket = unsafe { self.table.insert_no_grow(hash, value) };\n\n        if self.leftovers.is_some() {\n            // Also carry some items over.\n            self.carry(hasher);\n        }\n\n        Bucket {\n            bucket,\n            in_main: true,\n        }",
  "        // SAFETY: unknown requirements, but mirrored to caller\n        let bucket = unsafe { self.table.insert_no_grow(hash, value) };\n\n        let in_main = !(self.leftovers.is_some() && self.table.len() == 1);\n        if self.leftovers.is_some() {\n            // Also carry some items over.\n            self.carry(hasher);\n        }\n\n        Bucket { bucket, in_main }",
  ["C12", "C05"], "an inserting entry call that itself triggers growth, followed by remove/replace through the returned occupied handle")
m("deser-in-place-no-clear", "src/external_trait_impls/serde.rs",
  "                    self.0.clear();\n                    self.0.reserve(size_hint::cautious(seq.size_hint()));",
  "                    if !self.0.is_empty() && self.0.capacity() < 64 {\n                        self.0.clear();\n                    }\n                    self.0.reserve(size_hint::cautious(seq.size_hint()));",
  ["C16"], "deserialize_in_place into a non-empty set with capacity >= 64")
m("par-iter-skips-old", "src/external_trait_impls/rayon/raw.rs",
  "            leftovers: self.leftovers().map(|t| t.iter().into()),",
  "            leftovers: self.leftovers().filter(|t| t.len() > R_SKIP).map(|t| t.iter().into()),",
  ["C15"], "parallel iteration over a map with 1..=3 elements left in the old table")

def main():
    subprocess.run(["git", "-C", "/repo", "worktree", "remove", "--force", WT], capture_output=True)
    subprocess.check_call(["git", "-C", "/repo", "worktree", "add", "-q", WT, "HEAD"])
    try:
        for mu in M:
            subprocess.check_call(["git", "-C", WT, "checkout", "-q", "--", "."])
            p = os.path.join(WT, mu["file"])
            s = open(p).read()
            if s.count(mu["old"]) != 1:
                print("SKIP (anchor count %d): %s" % (s.count(mu["old"]), mu["name"]))
                continue
            s = s.replace(mu["old"], mu["new"])
            if mu["name"] == "par-iter-skips-old":
                s = s.replace("use crate::raw::RawTable;", "use crate::raw::RawTable;\nconst R_SKIP: usize = 3;")
            open(p, "w").write(s)
            d = subprocess.run(["git", "-C", WT, "diff", "--", "src/"], capture_output=True, text=True).stdout
            out = os.path.join("/verif/seeded", "own-" + mu["name"])
            os.makedirs(out, exist_ok=True)
            open(os.path.join(out, "patch.diff"), "w").write(d)
            meta_p = os.path.join(out, "meta.json")
            meta = json.load(open(meta_p)) if os.path.exists(meta_p) else {}
            meta.update({"id": "own-" + mu["name"], "origin": "hand-written from DESIGN.md section 5", "breaks": mu["breaks"], "needs_to_manifest": mu["needs"]})
            json.dump(meta, open(meta_p, "w"), indent=1)
            print("ok", mu["name"])
    finally:
        subprocess.run(["git", "-C", "/repo", "worktree", "remove", "--force", WT], capture_output=True)

main()
