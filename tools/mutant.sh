#!/bin/bash
# usage: tools/mutant.sh <instance> <patch.diff> <prop> [<prop>...]
# Applies the patch to a scratch worktree of /repo (outside /repo and /verif), confirms that the
# pinned suite still passes there, runs the given quick checks against it in a private instance,
# prints one line per check, and removes the worktree.
set -u
INST=$1; PATCH=$(readlink -f "$2"); shift 2
WT=/tmp/mutant-$INST
git -C /repo worktree remove --force $WT >/dev/null 2>&1
git -C /repo worktree add -q $WT HEAD || exit 2
if ! git -C $WT apply "$PATCH"; then echo "PATCH DOES NOT APPLY: $PATCH"; git -C /repo worktree remove --force $WT; exit 2; fi
if [ "${SKIP_BASELINE:-0}" != "1" ]; then
  (cd $WT && CARGO_TARGET_DIR=/verif/work-$INST/baseline-target cargo test --workspace --no-fail-fast --offline 2>&1 | grep -E "^test result" | awk '{p+=$4; f+=$6} END {print "baseline: passed=" p " failed=" f}')
fi
for P in "$@"; do
  OUT=$(cd /verif && VERIF_INSTANCE=$INST VERIF_REPO=$WT ./check $P 2>&1)
  RC=$?
  echo "$P rc=$RC $(echo "$OUT" | grep -E "VIOLATION|INCONCLUSIVE|BUILD FAILED" | head -2 | tr '\n' ' ')"
  if [ $RC -eq 1 ]; then echo "$OUT" | grep -v "^built\|^VIOLATION" | head -2 | cut -c1-400; fi
done
git -C /repo worktree remove --force $WT
