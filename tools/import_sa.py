#!/usr/bin/env python3
"""Imports a sub-agent's seeded change after confirming it independently.
usage: tools/import_sa.py <PROP> <n> [--features f] [--release-diff]
  n = 1 -> /tmp/sa/<PROP>/patch.diff + tests/demo_<PROP>.rs ; n = 2 -> patch2.diff + tests/demo2_<PROP>.rs
Confirms, in a fresh scratch worktree of /repo: the patch applies; the pinned suite (86 tests) passes with it;
the demonstration fails with it and passes without it. Then writes /verif/seeded/sa-<PROP>-<n>/."""
import json, os, shutil, subprocess, sys
prop, n = sys.argv[1], sys.argv[2]
feat = sys.argv[sys.argv.index("--features") + 1] if "--features" in sys.argv else None
reldiff = "--release-diff" in sys.argv
src = os.path.join(os.environ.get("SA_DIR", "/tmp/sa"), prop)
patch = os.path.join(src, "patch.diff" if n == "1" else "patch%s.diff" % n)
demo_name = ("demo_%s" if n == "1" else "demo" + n + "_%s") % prop
demo = os.path.join(src, "tests", demo_name + ".rs")
assert os.path.exists(patch), patch
assert os.path.exists(demo), demo
wt = "/tmp/import-sa-%s-%s" % (prop, n)
subprocess.run(["git", "-C", "/repo", "worktree", "remove", "--force", wt], capture_output=True)
subprocess.check_call(["git", "-C", "/repo", "worktree", "add", "-q", wt, "HEAD"])
env = dict(os.environ, CARGO_TARGET_DIR="/tmp/import-sa-target-%s" % prop, CARGO_NET_OFFLINE="true")
ran = []
def cargo(args, cwd=wt):
    r = subprocess.run(["cargo"] + args, cwd=cwd, env=env, capture_output=True, text=True)
    ran.append("cargo " + " ".join(args) + " -> rc %d" % r.returncode)
    return r
def counts(out):
    p = f = 0
    for line in out.splitlines():
        if line.startswith("test result:"):
            parts = line.split()
            p += int(parts[3]); f += int(parts[5])
    return p, f
try:
    shutil.copy(demo, os.path.join(wt, "tests", demo_name + ".rs"))
    fa = ["--features", feat] if feat else []
    def run_demo(release=False):
        return cargo(["test", "--offline", "--test", demo_name] + fa + (["--release"] if release else []))
    # without the change
    r0 = run_demo()
    clean_ok = r0.returncode == 0
    r0r = run_demo(True) if reldiff else None
    # with the change
    a = subprocess.run(["git", "-C", wt, "apply", patch], capture_output=True, text=True)
    assert a.returncode == 0, "patch does not apply: " + a.stderr
    rb = cargo(["test", "--workspace", "--no-fail-fast", "--offline", "--lib", "--test", "quick", "--test", "regressions", "--test", "rayon", "--test", "serde"])
    bp, bf = counts(rb.stdout)
    r1 = run_demo()
    r1r = run_demo(True) if reldiff else None
    if reldiff:
        # outcome must differ between profiles with the change, be the same without it
        with_diff = (r1.returncode == 0) != (r1r.returncode == 0)
        without_same = (r0.returncode == 0) == (r0r.returncode == 0)
        ok = with_diff and without_same and bf == 0 and bp == 86
        verdict = "profiles differ with change: %s; same without: %s" % (with_diff, without_same)
    else:
        ok = clean_ok and r1.returncode != 0 and bf == 0 and bp == 86
        verdict = "demo passes on clean tree: %s; demo fails with change: %s" % (clean_ok, r1.returncode != 0)
    print("baseline with change: passed=%d failed=%d; %s => %s" % (bp, bf, verdict, "CONFIRMED" if ok else "NOT CONFIRMED"))
    if not ok:
        print(r1.stdout[-800:]); print(r0.stdout[-400:])
        sys.exit(1)
    out = "/verif/seeded/%s-%s-%s" % (os.environ.get("SA_PREFIX", "sa"), prop, n)
    os.makedirs(out, exist_ok=True)
    shutil.copy(patch, os.path.join(out, "patch.diff"))
    shutil.copy(demo, os.path.join(out, demo_name + ".rs"))
    meta_p = os.path.join(out, "meta.json")
    meta = json.load(open(meta_p)) if os.path.exists(meta_p) else {}
    meta.update({"id": "%s-%s-%s" % (os.environ.get("SA_PREFIX", "sa"), prop, n), "origin": "independent sub-agent given only the text of %s and a scratch worktree" % prop,
                 "breaks": [prop], "demonstration": demo_name + ".rs" + (" (features: %s)" % feat if feat else ""),
                 "confirmed": {"pinned_suite_with_change": "passed=%d failed=%d" % (bp, bf), "verdict": verdict, "commands": ran}})
    meta.setdefault("needs_to_manifest", "see the agent's report (to be filled in)")
    json.dump(meta, open(meta_p, "w"), indent=1)
    print("stored", out)
finally:
    subprocess.run(["git", "-C", "/repo", "worktree", "remove", "--force", wt], capture_output=True)
    shutil.rmtree(env["CARGO_TARGET_DIR"], ignore_errors=True)
