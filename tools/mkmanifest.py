#!/usr/bin/env python3
"""Regenerates /verif/MANIFEST.json (kept in git; edit here, not there)."""
import json, os
ROOT = os.path.dirname(os.path.dirname(os.path.abspath(__file__)))
props = [json.loads(l) for l in open(os.path.join(ROOT, "properties.jsonl"))]

TECH = {
 "C01": "model-based stateful property testing (proptest histories vs. reference BTreeMap with object identities)",
 "C02": "model-based property testing with per-call measurement (hash log per object, counting allocator; per pulled item inside extend) against the stated bounds",
 "C03": "model-based property testing; per-call progress oracle on hook state + counting allocator (live tables)",
 "C04": "boundary-aimed model-based property testing with a fill-to-capacity probe; debug and release builds",
 "C05": "model-based property testing with canary/liveness-tracking elements and cursor invariant; same cases under AddressSanitizer; thorough adds coverage-guided libFuzzer+ASan and Miri",
 "C06": "model-based property testing with an object ledger (drop-tracked keys and values) and live-table accounting",
 "C07": "fault enumeration: panic injected at every invocation index of every callback kind of generated (state, op) pairs; consistency oracle + continued history",
 "C08": "model-based property testing: iterator batteries (multiset, exact len per step, fusedness, clone independence, prefixes, fold/for_each vs next, count/last/nth/skip, nth past the end of drain/into_iter)",
 "C09": "model-based property testing: generated predicates, call log, partition oracle, early drop / forget points",
 "C10": "property testing of contracts over generated boundary and huge arguments in every phase, follow-up insertions through insert / entry / raw entry / filtered extend, try_reserve under an injected allocation limit; debug and release builds",
 "C11": "two-slot model-based property testing: deep-copy, equality, independence, hasher adoption (lookups and hasher())",
 "C12": "model-based property testing over generated entry/raw-entry method chains simulated on the model entry",
 "C13": "model-based property testing of HashSet histories + BTreeSet algebra over pairs in both operand orders",
 "C14": "metamorphic property testing: different histories reaching the same (or minimally different) contents",
 "C15": "differential property testing: rayon traversal (collect, reductions, for_each, short-circuiting searches) vs sequential on generated states x pool sizes 1..32 x repetitions; NaN values, repeated and distinguishable keys for the constructors",
 "C16": "round-trip property testing: serde_test token streams from iter(), JSON round trip, deserialize_in_place (also of an empty sequence), zero-sized elements, differently seeded S::default()",
 "C17": "differential property testing: identical generated histories through debug and release builds, transcripts compared",
}
LEVEL_TEXT = {
 "C07": "fault enumeration: for every explored (state, operation) pair, every crash point (each invocation of each callback kind, exhaustive up to 64 per kind, sampled above) is executed; states themselves are sampled by generation",
}
DEFAULT_LEVEL = "exploration: the property is decided on generated histories only (counts and distributions in the evidence file); a minimal failing history is shrunk and saved as replay file. No absence proof."
NOTE = "trusts: the harness (interpreter, reference model, instrumentation) and the read-only verif-hooks; hashers limited to four deterministic modes (S::default() instances seeded differently, deterministically); sizes bounded per tier (see DESIGN.md section 4 and 9.16-9.20)"

checks = []
for p in props:
    pid = p["id"]
    checks.append({
        "property_id": pid,
        "quick_cmd": "./check %s --tier quick" % pid,
        "thorough_cmd": "./check %s --tier thorough" % pid,
        "evidence_file": "/verif/evidence/%s.json" % pid,
        "replay_cmd_template": "./check %s --replay {path}" % pid,
        "engine": "gv",
        "level_claimed": {"category": "fault_enumeration" if pid == "C07" else "exploration", "text": LEVEL_TEXT.get(pid, DEFAULT_LEVEL), "design_ref": "DESIGN.md section 4 (%s), section 3" % pid},
        "level_note": NOTE,
        "technique": TECH[pid],
    })
m = {
 "version": 1,
 "setup_cmd": "./setup.sh",
 "hooks": {
  "guard": "cargo feature `verif-hooks` of griddle",
  "enable": "the harness (harness/Cargo.toml) depends on a content-synchronised mirror of /repo (work/griddle, rsync -rc at the start of every check) with features [\"verif-hooks\", \"rayon\", \"serde\"]",
  "baseline_off_cmd": "cd /repo && cargo test --workspace --no-fail-fast --offline",
  "source_commits": ["4e13bec", "a018cdc"],
  "add_only": True,
 },
 "engines": [
  {"name": "gv", "path": "harness/", "serves_properties": [p["id"] for p in props], "kind_free_text": "Rust crate: proptest-driven interpreter of a case language against reference models, with counting allocator, object ledger, hash log and fault fuse; subcommands worker / replay / gen / transcript"},
  {"name": "gv-fuzz", "path": "harness/fuzz/", "serves_properties": ["C05"], "kind_free_text": "cargo-fuzz (libFuzzer + AddressSanitizer) target decoding bytes into cases with arbitrary::Unstructured; thorough tier of C05"},
  {"name": "check", "path": "check", "serves_properties": [p["id"] for p in props], "kind_free_text": "python3 driver: mirrors /repo, builds flavours (dbg/rel/asan), replays saved cases, runs 16 workers, aggregates evidence"},
 ],
 "checks": checks,
 "notes": "All 17 properties are decided by property-based testing / fuzzing. Genuine defects found (D1-D6) were repaired by five `fix:` commits in /repo; see known_findings.json and DESIGN.md section 2 and 9. Sensitivity against ~245 seeded changes (eight rounds of independent sub-agents plus hand-written ones) is tabulated in DESIGN.md section 10; tools/selfcheck.py runs every quick check on the unchanged tree and treats foreign failures as errors.",
 "not_applicable": [],
}
json.dump(m, open(os.path.join(ROOT, "MANIFEST.json"), "w"), indent=1)
print("wrote MANIFEST.json with", len(checks), "checks")
